// Package hx is the execution framework of the property checks: sessions,
// case accounting, rapid parts with JSON replay, status files for the driver.
package hx

import (
	"encoding/json"
	"flag"
	"fmt"
	"hash/fnv"
	"math/big"
	"os"
	"path/filepath"
	"runtime"
	"runtime/debug"
	"sort"
	"strconv"
	"strings"
	"sync"
	"testing"
	"time"

	"pgregory.net/rapid"

	"verif/harness/ref"
)

// ---------------------------------------------------------------- env

func envInt(name string, def int) int {
	if v := os.Getenv(name); v != "" {
		if n, err := strconv.Atoi(v); err == nil {
			return n
		}
	}
	return def
}

func envFloat(name string, def float64) float64 {
	if v := os.Getenv(name); v != "" {
		if n, err := strconv.ParseFloat(v, 64); err == nil {
			return n
		}
	}
	return def
}

// Tier is "quick" or "thorough".
func Tier() string {
	if os.Getenv("VERIF_TIER") == "thorough" {
		return "thorough"
	}
	return "quick"
}

func Thorough() bool { return Tier() == "thorough" }

func Shard() int { return envInt("VERIF_SHARD", 0) }

// Slot identifies the process among all processes of a run (file names, random streams). It equals Shard() except for
// "extra" processes (another platform / build), which take over the partition share of an existing shard.
func Slot() int    { return envInt("VERIF_SLOT", Shard()) }
func NShards() int { return envInt("VERIF_NSHARDS", 1) }
func Seed() int    { return envInt("VERIF_SEED", 1) }

// Pick returns q in the quick tier and th in the thorough tier.
func Pick(q, th int) int {
	if Thorough() {
		return th
	}
	return q
}

// PerShard splits a total case count over the shards (at least 1), after VERIF_SCALE.
func PerShard(total int) int {
	total = int(float64(total) * envFloat("VERIF_SCALE", 1))
	n := (total + NShards() - 1) / NShards()
	if n < 1 {
		n = 1
	}
	return n
}

// ---------------------------------------------------------------- recorder

// Rec counts what a run covered.
type Rec struct {
	mu        sync.Mutex
	evals     int64
	nt        map[uint64]struct{}
	ntCapped  bool
	ntEnum    int64
	labels    map[string]int64
	samples   []any
	ntSamples []any
	extra     map[string]any
	excluded  map[string]int64
}

const ntCap = 1 << 21

func newRec() *Rec {
	return &Rec{nt: map[uint64]struct{}{}, labels: map[string]int64{}, extra: map[string]any{}, excluded: map[string]int64{}}
}

// NewRecForFuzz returns a stand-alone recorder for native fuzz targets (counts are reported by the fuzz engine).
func NewRecForFuzz() *Rec { return newRec() }

// Eval counts n evaluations (cases run against the oracle).
func (r *Rec) Eval(n int) {
	r.mu.Lock()
	r.evals += int64(n)
	r.mu.Unlock()
}

// Hash64 hashes a printable key.
func Hash64(key ...any) uint64 {
	h := fnv.New64a()
	fmt.Fprint(h, key...)
	return h.Sum64()
}

// NT marks one non-trivial case, distinct by the hash of key.
func (r *Rec) NT(key ...any) {
	h := Hash64(key...)
	r.mu.Lock()
	if len(r.nt) < ntCap {
		r.nt[h] = struct{}{}
	} else {
		r.ntCapped = true
	}
	r.mu.Unlock()
}

// NTEnum counts n non-trivial cases that are distinct by construction
// (positions of an enumeration that is partitioned disjointly over shards).
func (r *Rec) NTEnum(n int) {
	r.mu.Lock()
	r.ntEnum += int64(n)
	r.mu.Unlock()
}

// Label increments a generator-class counter.
func (r *Rec) Label(names ...string) {
	r.mu.Lock()
	for _, n := range names {
		r.labels[n]++
	}
	r.mu.Unlock()
}

func (r *Rec) LabelN(name string, n int) {
	r.mu.Lock()
	r.labels[name] += int64(n)
	r.mu.Unlock()
}

// Excluded counts cases removed from the search by construction because of a listed known finding.
func (r *Rec) Excluded(name string) {
	r.mu.Lock()
	r.excluded[name]++
	r.mu.Unlock()
}

// Sample keeps the first few cases verbatim.
func (r *Rec) Sample(v any) {
	r.mu.Lock()
	if len(r.samples) < 3 {
		r.samples = append(r.samples, v)
	}
	r.mu.Unlock()
}

// SampleNT keeps the first few non-trivial cases verbatim.
func (r *Rec) SampleNT(v any) {
	r.mu.Lock()
	if len(r.ntSamples) < 3 {
		r.ntSamples = append(r.ntSamples, v)
	}
	r.mu.Unlock()
}

// Extra attaches a named value to the shard record.
func (r *Rec) Extra(name string, v any) {
	r.mu.Lock()
	r.extra[name] = v
	r.mu.Unlock()
}

// ---------------------------------------------------------------- session

type status struct {
	Status  string `json:"status"` // ok | violation | inconclusive
	Replay  string `json:"replay,omitempty"`
	Message string `json:"message,omitempty"`
}

// Session is one run of one property's test function in one shard process.
type Session struct {
	T     *testing.T
	ID    string
	Rec   *Rec
	out   string
	start time.Time

	traceFile *os.File

	mu        sync.Mutex
	st        status
	violCount int
	aborted   bool
}

// Inconclusive is the panic value for harness-side failures (exit 2, never a violation).
type Inconclusive struct{ Msg string }

func (e Inconclusive) Error() string { return "INCONCLUSIVE: " + e.Msg }

// Start opens a session: runs the reference self-test and prepares the output directory.
func Start(t *testing.T, id string) *Session {
	s := &Session{T: t, ID: id, Rec: newRec(), start: time.Now()}
	s.out = os.Getenv("VERIF_OUT")
	if s.out == "" {
		s.out = filepath.Join(os.TempDir(), "verif-out-"+id)
	}
	_ = os.MkdirAll(s.out, 0o755)
	s.st.Status = "ok"
	_ = flag.Set("rapid.nofailfile", "true")
	_ = flag.Set("rapid.shrinktime", "12s")
	if err := ref.SelfTest(false); err != nil {
		s.Abort("reference self-test failed: " + err.Error())
	}
	return s
}

// Abort marks the session inconclusive.
func (s *Session) Abort(msg string) {
	s.mu.Lock()
	if !s.aborted {
		s.aborted = true
		if s.st.Status != "violation" {
			s.st = status{Status: "inconclusive", Message: msg}
		}
	}
	s.mu.Unlock()
}

func (s *Session) Aborted() bool {
	s.mu.Lock()
	defer s.mu.Unlock()
	return s.aborted
}

// ReplayFile is the on-disk form of a failing case.
type ReplayFile struct {
	Property string          `json:"property"`
	Part     string          `json:"part"`
	Error    string          `json:"error"`
	Config   map[string]any  `json:"config,omitempty"`
	Case     json.RawMessage `json:"case"`
}

// RunConfig describes the process-level configuration (part of every replay and shard record).
func RunConfig() map[string]any {
	return map[string]any{
		"numcpu":     runtime.NumCPU(),
		"gomaxprocs": runtime.GOMAXPROCS(0),
		"tier":       Tier(),
		"seed":       Seed(),
		"shard":      Slot(),
		"nshards":    NShards(),
		"variant":    os.Getenv("VERIF_VARIANT"),
	}
}

// Violation records a failing case; the file is rewritten on every call for the
// same part so that what is left behind is the last (minimal) case of a shrink.
func (s *Session) Violation(part string, c any, err error) string {
	raw, jerr := json.Marshal(c)
	if jerr != nil {
		raw = []byte(fmt.Sprintf("%q", fmt.Sprint(c)))
	}
	rf := ReplayFile{Property: s.ID, Part: part, Error: err.Error(), Config: RunConfig(), Case: raw}
	data, _ := json.MarshalIndent(rf, "", " ")
	path := filepath.Join(s.out, fmt.Sprintf("replay-%s-%s-shard%d.json", s.ID, part, Slot()))
	_ = os.WriteFile(path, data, 0o644)
	s.mu.Lock()
	s.st = status{Status: "violation", Replay: path, Message: err.Error()}
	s.violCount++
	s.mu.Unlock()
	return path
}

// trace persists the case that is about to be evaluated, so that a crash of the whole process inside go-ipa
// (a panic in one of its own goroutines cannot be recovered by the harness) still leaves a replay file behind.
func (s *Session) trace(part string, c any) {
	raw, err := json.Marshal(c)
	if err != nil {
		return
	}
	rf := ReplayFile{Property: s.ID, Part: part, Error: "the test process crashed while evaluating this case", Config: RunConfig(), Case: raw}
	data, _ := json.Marshal(rf)
	if s.traceFile == nil {
		f, err := os.Create(filepath.Join(s.out, fmt.Sprintf("current-%s-shard%d.json", s.ID, Slot())))
		if err != nil {
			return
		}
		s.traceFile = f
	}
	_, _ = s.traceFile.WriteAt(data, 0)
	_ = s.traceFile.Truncate(int64(len(data)))
}

// Failed reports whether a violation was recorded.
func (s *Session) Failed() bool {
	s.mu.Lock()
	defer s.mu.Unlock()
	return s.st.Status == "violation"
}

// Finish writes the shard record and status file and fails the test when needed.
func (s *Session) Finish() {
	if p := recover(); p != nil { // a harness panic outside Guard: inconclusive, never a violation
		s.Abort(fmt.Sprintf("harness panic: %v\n%s", p, debug.Stack()))
	}
	r := s.Rec
	r.mu.Lock()
	hashes := make([]string, 0, len(r.nt))
	for h := range r.nt {
		hashes = append(hashes, strconv.FormatUint(h, 16))
	}
	sort.Strings(hashes)
	rec := map[string]any{
		"property":    s.ID,
		"config":      RunConfig(),
		"evaluations": r.evals,
		"nt_hashes":   hashes,
		"nt_capped":   r.ntCapped,
		"nt_enum":     r.ntEnum,
		"labels":      r.labels,
		"samples":     r.samples,
		"nt_samples":  r.ntSamples,
		"extra":       r.extra,
		"excluded":    r.excluded,
		"wall_s":      time.Since(s.start).Seconds(),
	}
	r.mu.Unlock()
	data, err := json.Marshal(rec)
	if err != nil {
		s.Abort("cannot serialise shard record: " + err.Error())
	} else {
		_ = os.WriteFile(filepath.Join(s.out, fmt.Sprintf("shard-%s-%d.json", s.ID, Slot())), data, 0o644)
	}
	s.mu.Lock()
	st := s.st
	s.mu.Unlock()
	sd, _ := json.Marshal(st)
	_ = os.WriteFile(filepath.Join(s.out, fmt.Sprintf("status-%s-%d.json", s.ID, Slot())), sd, 0o644)
	switch st.Status {
	case "violation":
		s.T.Errorf("VIOLATION property=%s replay=%s: %s", s.ID, st.Replay, st.Message)
	case "inconclusive":
		s.T.Errorf("INCONCLUSIVE property=%s: %s", s.ID, st.Message)
	}
}

// Guard runs fn, converting a harness-side panic into an inconclusive session.
// It returns false if the session is (now) aborted.
func (s *Session) Guard(fn func()) (ok bool) {
	if s.Aborted() {
		return false
	}
	defer func() {
		if p := recover(); p != nil {
			s.Abort(fmt.Sprintf("harness panic: %v\n%s", p, debug.Stack()))
			ok = false
		}
	}()
	fn()
	return true
}

// ---------------------------------------------------------------- calling go-ipa

// ImplPanic is the error for a panic raised inside go-ipa.
type ImplPanic struct {
	Val   any
	Stack string
}

func (e *ImplPanic) Error() string {
	st := e.Stack
	if len(st) > 1500 {
		st = st[:1500]
	}
	return fmt.Sprintf("panic inside go-ipa: %v\n%s", e.Val, st)
}

// Try runs a call into go-ipa and converts a panic into an error (a violation).
func Try(fn func()) (err error) {
	defer func() {
		if p := recover(); p != nil {
			if inc, ok := p.(Inconclusive); ok {
				panic(inc)
			}
			err = &ImplPanic{Val: p, Stack: string(debug.Stack())}
		}
	}()
	fn()
	return nil
}

// ---------------------------------------------------------------- parts

type partIface interface {
	evalRaw(raw json.RawMessage, r *Rec) error
}

var registry = map[string]partIface{}

// Part is one generated sub-check of a property: a generator and an oracle over a JSON-serialisable case.
type Part[C any] struct {
	ID, Name string
	Gen      func(t *rapid.T) C
	Eval     func(c C, r *Rec) error
}

// NewPart registers a part (at package initialisation) so that replay files can be dispatched to it.
func NewPart[C any](id, name string, gen func(t *rapid.T) C, eval func(c C, r *Rec) error) *Part[C] {
	p := &Part[C]{ID: id, Name: name, Gen: gen, Eval: eval}
	registry[id+"/"+name] = p
	return p
}

func (p *Part[C]) evalRaw(raw json.RawMessage, r *Rec) error {
	var c C
	dec := json.NewDecoder(strings.NewReader(string(raw)))
	if err := dec.Decode(&c); err != nil {
		panic(Inconclusive{"cannot decode case: " + err.Error()})
	}
	return p.Eval(c, r)
}

// EvalCase evaluates one explicit case (regression use).
func (p *Part[C]) EvalCase(s *Session, c C) {
	if s.Aborted() {
		return
	}
	var err error
	s.trace(p.Name, c)
	ok := s.Guard(func() { err = p.Eval(c, s.Rec) })
	if ok && err != nil {
		s.Violation(p.Name, c, err)
	}
}

// rapidSeed derives the PRNG value of this shard and part (never 0, which rapid treats as "random").
func rapidSeed(part string) uint64 {
	v := uint64(1) + 1000003*uint64(Seed()) + uint64(Slot()) + (Hash64(part)%9973)*1000000007
	if v == 0 {
		v = 1
	}
	return v
}

// Run replays the part's corpus and then drives it with rapid for `checks` cases in this shard.
func (p *Part[C]) Run(s *Session, checks int) {
	if s.Aborted() || s.Failed() {
		return
	}
	p.replayCorpus(s)
	if s.Aborted() || s.Failed() || checks <= 0 {
		return
	}
	_ = flag.Set("rapid.checks", strconv.Itoa(checks))
	_ = flag.Set("rapid.seed", strconv.FormatUint(rapidSeed(p.Name), 10))
	var inner testingTB
	inner.T = s.T
	func() {
		defer func() {
			if pv := recover(); pv != nil {
				if _, ok := pv.(stopRapid); !ok {
					panic(pv)
				}
			}
		}()
		rapid.Check(&inner, func(rt *rapid.T) {
			if s.Aborted() {
				return
			}
			c := p.Gen(rt) // rapid's own control-flow panics must propagate
			s.trace(p.Name, c)
			var err error
			ok := s.Guard(func() { err = p.Eval(c, s.Rec) })
			if !ok {
				return
			}
			if err != nil {
				s.Violation(p.Name, c, err)
				rt.Fatalf("property %s/%s violated: %v", p.ID, p.Name, err)
			}
		})
	}()
	if inner.failed && !s.Failed() && !s.Aborted() {
		s.Abort("rapid reported a failure that is not an oracle disagreement: " + inner.msg)
	}
}

// RunConcurrent evaluates generated cases from several goroutines at once (each goroutine its own cases). The
// properties quantify over inputs, but callers are free to use the library from several goroutines; a result that
// is only wrong when other callers are active (a shared scratch buffer, a pooled object handed out twice, lazily
// initialised state) must not hide behind a single-threaded harness. Cases are drawn deterministically up front.
func (p *Part[C]) RunConcurrent(s *Session, goroutines, perG int) {
	if s.Aborted() || s.Failed() || goroutines < 2 || perG < 1 {
		return
	}
	if !Thorough() && Shard()%4 != 0 { // quick tier: a quarter of the shard processes, so that the goroutines really run in parallel
		return
	}
	gen := rapid.Custom(p.Gen)
	base := int(rapidSeed(p.Name+"/concurrent") % 1000000007)
	// the cases are generated in rounds of a bounded size (a case can hold tens of kilobytes; holding all of them at once cost
	// gigabytes in the thorough tier); goroutine g evaluates cases base + g*perG + i as before
	const round = 64
	total := 0
	for off := 0; off < perG; off += round {
		n := round
		if perG-off < n {
			n = perG - off
		}
		cases := make([]C, goroutines*n)
		ok := s.Guard(func() {
			for g := 0; g < goroutines; g++ {
				for i := 0; i < n; i++ {
					cases[g*n+i] = gen.Example(base + g*perG + off + i)
				}
			}
		})
		if !ok {
			return
		}
		var wg sync.WaitGroup
		var mu sync.Mutex
		var firstErr error
		var firstCase C
		start := make(chan struct{})
		for g := 0; g < goroutines; g++ {
			wg.Add(1)
			go func(g int) {
				defer wg.Done()
				defer func() {
					if pv := recover(); pv != nil {
						s.Abort(fmt.Sprintf("harness panic in concurrent evaluation: %v\n%s", pv, debug.Stack()))
					}
				}()
				<-start
				for i := 0; i < n; i++ {
					mu.Lock()
					stop := firstErr != nil
					mu.Unlock()
					if stop || s.Aborted() {
						return
					}
					c := cases[g*n+i]
					if err := p.Eval(c, s.Rec); err != nil {
						mu.Lock()
						if firstErr == nil {
							firstErr, firstCase = err, c
						}
						mu.Unlock()
						return
					}
				}
			}(g)
		}
		close(start)
		wg.Wait()
		total += len(cases)
		if firstErr != nil {
			s.Violation(p.Name, firstCase, fmt.Errorf("while %d goroutines evaluated independent cases concurrently (GOMAXPROCS=%d): %w", goroutines, runtime.GOMAXPROCS(0), firstErr))
			break
		}
		if s.Aborted() {
			break
		}
	}
	s.Rec.LabelN("concurrent_callers_cases", total)
}

// testingTB wraps *testing.T so that rapid's own failure report does not fail the
// test directly; the session decides the outcome (violation vs inconclusive).
type testingTB struct {
	*testing.T
	failed bool
	msg    string
}

func (w *testingTB) Errorf(format string, args ...any) {
	w.failed = true
	w.msg = fmt.Sprintf(format, args...)
	w.T.Logf("[rapid] "+format, args...)
}
func (w *testingTB) Error(args ...any) {
	w.failed = true
	w.msg = fmt.Sprint(args...)
	w.T.Log(append([]any{"[rapid]"}, args...)...)
}
func (w *testingTB) Fatalf(format string, args ...any) {
	w.failed = true
	w.msg = fmt.Sprintf(format, args...)
	w.T.Logf("[rapid] "+format, args...)
	panic(stopRapid{})
}
func (w *testingTB) Fatal(args ...any) {
	w.failed = true
	w.msg = fmt.Sprint(args...)
	w.T.Log(append([]any{"[rapid]"}, args...)...)
	panic(stopRapid{})
}
func (w *testingTB) Fail()        { w.failed = true }
func (w *testingTB) FailNow()     { w.failed = true; panic(stopRapid{}) }
func (w *testingTB) Failed() bool { return w.failed }

type stopRapid struct{}

func (p *Part[C]) replayCorpus(s *Session) {
	dir := os.Getenv("VERIF_CORPUS")
	if dir == "" || Shard() != 0 {
		return
	}
	files, _ := filepath.Glob(filepath.Join(dir, p.ID, "*.json"))
	sort.Strings(files)
	n := 0
	for _, f := range files {
		data, err := os.ReadFile(f)
		if err != nil {
			continue
		}
		var rf ReplayFile
		if json.Unmarshal(data, &rf) != nil || rf.Property != p.ID || rf.Part != p.Name {
			continue
		}
		var verr error
		ok := s.Guard(func() { verr = p.evalRaw(rf.Case, s.Rec) })
		if !ok {
			return
		}
		n++
		if verr != nil {
			var c C
			_ = json.Unmarshal(rf.Case, &c)
			s.Violation(p.Name, c, fmt.Errorf("corpus case %s: %w", filepath.Base(f), verr))
			return
		}
	}
	s.Rec.LabelN("corpus_replayed", n)
}

// Replay re-evaluates one replay file without rapid. It returns the oracle's verdict.
func Replay(path string) (rf ReplayFile, verr error, err error) {
	data, err := os.ReadFile(path)
	if err != nil {
		return rf, nil, err
	}
	if err := json.Unmarshal(data, &rf); err != nil {
		return rf, nil, err
	}
	p, ok := registry[rf.Property+"/"+rf.Part]
	if !ok {
		return rf, nil, fmt.Errorf("no part %s/%s in this binary", rf.Property, rf.Part)
	}
	defer func() {
		if pv := recover(); pv != nil {
			err = fmt.Errorf("harness panic during replay: %v", pv)
		}
	}()
	verr = p.evalRaw(rf.Case, newRec())
	return rf, verr, nil
}

// Responsive measures whether the machine still makes progress: a fixed reference computation (a few hundred
// field multiplications with math/big) that normally takes well under a millisecond must finish within the limit.
// It is used after a watchdog fired: "the go-ipa call has been stuck for minutes (>= 1000x its normal cost) while an
// independent computation in the same process completes at once" is a termination failure, not a slow machine.
func Responsive(limit time.Duration) bool {
	done := make(chan struct{})
	go func() {
		x := big.NewInt(3)
		for i := 0; i < 400; i++ {
			x.Mul(x, x)
			x.Mod(x, ref.R)
		}
		close(done)
	}()
	select {
	case <-done:
		return true
	case <-time.After(limit):
		return false
	}
}

// Sharded reports whether enumeration position i belongs to this shard.
func Sharded(i int) bool { return i%NShards() == Shard() }

// ---------------------------------------------------------------- watchdog

// Watchdog runs fn in a goroutine and waits at most d. When fn does not return it
// reports whether the goroutine dump looks like a deadlock inside go-ipa (every
// goroutine with a go-ipa frame is parked on a channel operation or a WaitGroup).
func Watchdog(d time.Duration, fn func()) (returned bool, deadlock bool, dump string, perr error) {
	done := make(chan error, 1)
	go func() { done <- Try(fn) }()
	select {
	case err := <-done:
		return true, false, "", err
	case <-time.After(d):
	}
	buf := make([]byte, 1<<22)
	buf = buf[:runtime.Stack(buf, true)]
	dump = string(buf)
	parked, busy := 0, 0
	for _, g := range strings.Split(dump, "\n\n") {
		if !strings.Contains(g, "github.com/crate-crypto/go-ipa") {
			continue
		}
		head := g
		if i := strings.IndexByte(g, '\n'); i >= 0 {
			head = g[:i]
		}
		switch {
		case strings.Contains(head, "chan send"), strings.Contains(head, "chan receive"), strings.Contains(head, "semacquire"),
			strings.Contains(head, "select"), strings.Contains(head, "sync.WaitGroup"), strings.Contains(head, "sync.Mutex"):
			parked++
		default:
			busy++
		}
	}
	if len(dump) > 6000 {
		dump = dump[:6000]
	}
	return false, parked > 0 && busy == 0, dump, nil
}
