//go:build verif_elem

package hx

import (
	gfr "github.com/consensys/gnark-crypto/ecc/bls12-381/fr"
	"github.com/crate-crypto/go-ipa/bandersnatch"
	"github.com/crate-crypto/go-ipa/banderwagon"

	"verif/harness/ref"
)

// RPt is a reference point on the fast backend; its coordinate type is the
// third-party field element type that go-ipa's elements also store, so moving a
// representation in or out of go-ipa is a plain copy of three field elements
// through the verif_elem hook (no go-ipa decoding or encoding code involved).
type RPt = ref.Pt[gfr.Element]

// FE is the coordinate type of RPt.
type FE = gfr.Element

var G = ref.Fast

// ToImpl builds a go-ipa element holding exactly the projective triple of p.
func ToImpl(p RPt) banderwagon.Element {
	var e banderwagon.Element
	*e.VerifInner() = bandersnatch.PointProj{X: p.X, Y: p.Y, Z: p.Z}
	return e
}

// FromImpl reads the projective triple of e.
func FromImpl(e *banderwagon.Element) RPt {
	in := e.VerifInner()
	return RPt{X: in.X, Y: in.Y, Z: in.Z}
}

func ToImplSlice(ps []RPt) []banderwagon.Element {
	out := make([]banderwagon.Element, len(ps))
	for i := range ps {
		out[i] = ToImpl(ps[i])
	}
	return out
}

// Rescale returns (lX, lY, lZ) for l != 0.
func Rescale(p RPt, l gfr.Element) RPt {
	var q RPt
	q.X.Mul(&p.X, &l)
	q.Y.Mul(&p.Y, &l)
	q.Z.Mul(&p.Z, &l)
	return q
}

// Flip returns the other member (-x,-y) of the Banderwagon class.
func Flip(p RPt) RPt {
	var q RPt
	q.X.Neg(&p.X)
	q.Y.Neg(&p.Y)
	q.Z = p.Z
	return q
}

// Rep applies a representation change: bit 0 = rescale by lambda, bit 1 = flip.
func Rep(p RPt, mode int, lambdaSeed uint64) RPt {
	if mode&1 != 0 {
		var l gfr.Element
		l.SetBigInt(Expand(lambdaSeed, "lambda", 0))
		if l.IsZero() {
			l.SetOne()
		}
		p = Rescale(p, l)
	}
	if mode&2 != 0 {
		p = Flip(p)
	}
	return p
}

// SameTriple reports whether two representations are bit-identical.
func SameTriple(a, b RPt) bool { return a.X == b.X && a.Y == b.Y && a.Z == b.Z }

// TieProduct rescales ONE element of the list (the first that occurs exactly once) so that the product over all list
// entries (with multiplicity) of the chosen coordinate ("Z" or "Y") becomes exactly `target` — a relation between the
// inputs of one batch call that random representations never satisfy (batch routines accumulate such products).
// Every element keeps denoting the same point. It reports whether the relation could be established.
func TieProduct(list []*banderwagon.Element, coord string, target gfr.Element) bool {
	count := map[*banderwagon.Element]int{}
	for _, e := range list {
		count[e]++
	}
	var pick *banderwagon.Element
	for _, e := range list {
		if count[e] == 1 {
			pick = e
			break
		}
	}
	if pick == nil {
		return false
	}
	get := func(e *banderwagon.Element) gfr.Element {
		if coord == "Y" {
			return e.VerifInner().Y
		}
		return e.VerifInner().Z
	}
	var prod gfr.Element
	prod.SetOne()
	for _, e := range list {
		if e != pick {
			c := get(e)
			prod.Mul(&prod, &c)
		}
	}
	own := get(pick)
	if prod.IsZero() || own.IsZero() {
		return false
	}
	// lambda * own * prod = target
	var l gfr.Element
	l.Mul(&own, &prod)
	l.Inverse(&l)
	l.Mul(&l, &target)
	if l.IsZero() {
		return false
	}
	*pick = ToImpl(Rescale(FromImpl(pick), l))
	return true
}
