package hx

import (
	"crypto/sha256"
	"encoding/binary"
	"encoding/hex"
	"math/big"

	"github.com/crate-crypto/go-ipa/bandersnatch/fr"

	"verif/harness/ref"
)

var (
	montR    = new(big.Int).Lsh(big.NewInt(1), 256)                                 // 2^256
	montRInv = new(big.Int).ModInverse(new(big.Int).Lsh(big.NewInt(1), 256), ref.R) // 2^-256 mod r
)

// FrRaw returns the integer held in the four limbs (Montgomery representation, not converted).
func FrRaw(e *fr.Element) *big.Int {
	v := new(big.Int)
	for i := 3; i >= 0; i-- {
		v.Lsh(v, 64)
		v.Or(v, new(big.Int).SetUint64(e[i]))
	}
	return v
}

// FrSetRaw writes an integer < 2^256 into the limbs as is.
func FrSetRaw(v *big.Int) fr.Element {
	var e fr.Element
	t := new(big.Int).Set(v)
	mask := new(big.Int).SetUint64(^uint64(0))
	for i := 0; i < 4; i++ {
		e[i] = new(big.Int).And(t, mask).Uint64()
		t.Rsh(t, 64)
	}
	return e
}

// FrFromBig builds the element with value v mod r directly from limbs
// (Montgomery form v*2^256 mod r), without using the package's own conversions.
func FrFromBig(v *big.Int) fr.Element {
	m := new(big.Int).Mul(new(big.Int).Mod(v, ref.R), montR)
	m.Mod(m, ref.R)
	return FrSetRaw(m)
}

// FrToBig returns the value of e: limbs * 2^-256 mod r, computed with math/big.
func FrToBig(e *fr.Element) *big.Int {
	v := FrRaw(e)
	v.Mul(v, montRInv)
	return v.Mod(v, ref.R)
}

// FrReduced reports whether the limbs hold a fully reduced value (< r).
func FrReduced(e *fr.Element) bool { return FrRaw(e).Cmp(ref.R) < 0 }

func FrSliceFromBig(vs []*big.Int) []fr.Element {
	out := make([]fr.Element, len(vs))
	for i, v := range vs {
		out[i] = FrFromBig(v)
	}
	return out
}

func FrSliceToBig(es []fr.Element) []*big.Int {
	out := make([]*big.Int, len(es))
	for i := range es {
		out[i] = FrToBig(&es[i])
	}
	return out
}

// Hex helpers for JSON cases.
func HexBig(v *big.Int) string { return v.Text(16) }
func BigHex(s string) *big.Int {
	v, ok := new(big.Int).SetString(s, 16)
	if !ok {
		panic(Inconclusive{"bad hex integer in case: " + s})
	}
	return v
}
func HexBytes(b []byte) string { return hex.EncodeToString(b) }
func BytesHex(s string) []byte {
	b, err := hex.DecodeString(s)
	if err != nil {
		panic(Inconclusive{"bad hex bytes in case: " + s})
	}
	return b
}

// Expand derives the i-th pseudo-random 256-bit integer of stream (seed, tag):
// SHA-256 in counter mode, so bulk data is a pure function of one drawn 64-bit value.
func Expand(seed uint64, tag string, i int) *big.Int {
	var b [16]byte
	binary.BigEndian.PutUint64(b[:8], seed)
	binary.BigEndian.PutUint64(b[8:], uint64(i))
	h := sha256.New()
	h.Write([]byte(tag))
	h.Write(b[:])
	return new(big.Int).SetBytes(h.Sum(nil))
}

// ExpandFr is Expand reduced modulo r.
func ExpandFr(seed uint64, tag string, i int) *big.Int {
	v := Expand(seed, tag, i)
	return v.Mod(v, ref.R)
}

// ExpandBytes returns n pseudo-random bytes of stream (seed, tag).
func ExpandBytes(seed uint64, tag string, n int) []byte {
	out := make([]byte, 0, n+32)
	for i := 0; len(out) < n; i++ {
		out = append(out, ref.BE32(Expand(seed, tag, i))...)
	}
	return out[:n]
}
