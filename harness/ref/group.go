package ref

import (
	"crypto/sha256"
	"encoding/binary"
	"errors"
	"math/big"
)

// Pt is a projective twisted Edwards point (X:Y:Z), x = X/Z, y = Y/Z.
type Pt[E any] struct{ X, Y, Z E }

// Group is the Banderwagon group over one field backend.
type Group[E any] struct {
	F    Field[E]
	a, d E
	gen  Pt[E]
	crs  []Pt[E]
	name string
}

func newGroup[E any](f Field[E], name string) *Group[E] {
	g := &Group[E]{F: f, name: name}
	g.a = f.FromBig(CurveA)
	g.d = f.FromBig(CurveD)
	g.gen = Pt[E]{f.FromBig(GenX), f.FromBig(GenY), f.One()}
	return g
}

// Big is the math/big instantiation, Fast the gnark-field instantiation.
var (
	Big  = newGroup[*big.Int](BigF{}, "big")
	Fast = newGroup[fastE](FastF{}, "fast")
)

func (g *Group[E]) Name() string     { return g.name }
func (g *Group[E]) Generator() Pt[E] { return g.gen }
func (g *Group[E]) Identity() Pt[E]  { return Pt[E]{g.F.Zero(), g.F.One(), g.F.One()} }

// Add is the unified projective addition law for twisted Edwards curves
// (add-2008-bbjlp); it is complete on the prime-order subgroup and its
// cosets used here, and is also used for doubling.
func (g *Group[E]) Add(p, q Pt[E]) Pt[E] {
	f := g.F
	A := f.Mul(p.Z, q.Z)
	B := f.Mul(A, A)
	C := f.Mul(p.X, q.X)
	D := f.Mul(p.Y, q.Y)
	E_ := f.Mul(g.d, f.Mul(C, D))
	F_ := f.Sub(B, E_)
	G_ := f.Add(B, E_)
	t := f.Mul(f.Add(p.X, p.Y), f.Add(q.X, q.Y))
	t = f.Sub(f.Sub(t, C), D)
	X := f.Mul(f.Mul(A, F_), t)
	Y := f.Mul(f.Mul(A, G_), f.Sub(D, f.Mul(g.a, C)))
	Z := f.Mul(F_, G_)
	return Pt[E]{X, Y, Z}
}

func (g *Group[E]) Double(p Pt[E]) Pt[E] { return g.Add(p, p) }
func (g *Group[E]) Neg(p Pt[E]) Pt[E]    { return Pt[E]{g.F.Neg(p.X), p.Y, p.Z} }
func (g *Group[E]) Sub(p, q Pt[E]) Pt[E] { return g.Add(p, g.Neg(q)) }

// Mul is left-to-right double-and-add for any non-negative integer s.
func (g *Group[E]) Mul(p Pt[E], s *big.Int) Pt[E] {
	if s.Sign() < 0 {
		panic("ref: negative scalar")
	}
	acc := g.Identity()
	for i := s.BitLen() - 1; i >= 0; i-- {
		acc = g.Add(acc, acc)
		if s.Bit(i) == 1 {
			acc = g.Add(acc, p)
		}
	}
	return acc
}

// MSM is the plain sum of scalar multiplications.
func (g *Group[E]) MSM(ps []Pt[E], ss []*big.Int) Pt[E] {
	if len(ps) != len(ss) {
		panic("ref: MSM length mismatch")
	}
	acc := g.Identity()
	for i := range ps {
		if ss[i].Sign() == 0 {
			continue
		}
		acc = g.Add(acc, g.Mul(ps[i], ss[i]))
	}
	return acc
}

// Affine returns the canonical affine coordinates of p.
func (g *Group[E]) Affine(p Pt[E]) (x, y *big.Int) {
	zi := g.F.Inv(p.Z)
	return g.F.ToBig(g.F.Mul(p.X, zi)), g.F.ToBig(g.F.Mul(p.Y, zi))
}

// FromAffine builds a point from affine big-integer coordinates (not validated).
func (g *Group[E]) FromAffine(x, y *big.Int) Pt[E] {
	return Pt[E]{g.F.FromBig(x), g.F.FromBig(y), g.F.One()}
}

// FromProj builds a point from projective big-integer coordinates (not validated).
func (g *Group[E]) FromProj(x, y, z *big.Int) Pt[E] {
	return Pt[E]{g.F.FromBig(x), g.F.FromBig(y), g.F.FromBig(z)}
}

// IsValid reports Z != 0 and a*X^2*Z^2 + Y^2*Z^2 == Z^4 + d*X^2*Y^2 (on curve).
func (g *Group[E]) IsValid(p Pt[E]) bool {
	f := g.F
	if f.IsZero(p.Z) {
		return false
	}
	xx, yy, zz := f.Mul(p.X, p.X), f.Mul(p.Y, p.Y), f.Mul(p.Z, p.Z)
	lhs := f.Add(f.Mul(f.Mul(g.a, xx), zz), f.Mul(yy, zz))
	rhs := f.Add(f.Mul(zz, zz), f.Mul(g.d, f.Mul(xx, yy)))
	return f.Equal(lhs, rhs)
}

// Equal is Banderwagon class equality on normalised affine coordinates:
// (x1,y1) ~ (x2,y2) iff (x1,y1) == (x2,y2) or (x1,y1) == (-x2,-y2).
func (g *Group[E]) Equal(p, q Pt[E]) bool {
	x1, y1 := g.Affine(p)
	x2, y2 := g.Affine(q)
	if x1.Cmp(x2) == 0 && y1.Cmp(y2) == 0 {
		return true
	}
	nx := new(big.Int).Mod(new(big.Int).Neg(x2), P)
	ny := new(big.Int).Mod(new(big.Int).Neg(y2), P)
	return x1.Cmp(nx) == 0 && y1.Cmp(ny) == 0
}

// IsIdentity reports whether p is in the identity class {(0,1),(0,-1)}.
func (g *Group[E]) IsIdentity(p Pt[E]) bool { return g.Equal(p, g.Identity()) }

// InSubgroup reports whether r*p is the neutral element of the curve, or the
// 2-torsion point (0,-1) (i.e. p represents an element of the quotient group).
func (g *Group[E]) InSubgroup(p Pt[E]) bool { return g.IsIdentity(g.Mul(p, R)) }

// Compress is x * sign(y): x if y is the "larger" root (y > (p-1)/2), else -x.
func (g *Group[E]) Compress(p Pt[E]) [32]byte {
	x, y := g.Affine(p)
	if y.Cmp(halfP) <= 0 {
		x = new(big.Int).Mod(new(big.Int).Neg(x), P)
	}
	var out [32]byte
	x.FillBytes(out[:])
	return out
}

// Uncompressed returns x || y (big-endian, canonical) of the given representative.
func (g *Group[E]) Uncompressed(p Pt[E]) [64]byte {
	x, y := g.Affine(p)
	var out [64]byte
	x.FillBytes(out[:32])
	y.FillBytes(out[32:])
	return out
}

// Decoding failure clauses (exactly one is reported: the first that fails).
var (
	ErrLength       = errors.New("ref: wrong length")
	ErrNonCanonical = errors.New("ref: coordinate not canonical (>= p)")
	ErrNotOnCurve   = errors.New("ref: no curve point with this x")
	ErrNotSubgroup  = errors.New("ref: 1 - a*x^2 is not a non-zero square")
	ErrWrongY       = errors.New("ref: y is not the canonical root for x")
)

// yFromX returns the larger root y of y^2 = (a x^2 - 1)/(d x^2 - 1), or nil.
func yFromX(x *big.Int) *big.Int {
	x2 := new(big.Int).Mul(x, x)
	x2.Mod(x2, P)
	num := new(big.Int).Mul(CurveA, x2)
	num.Sub(num, big.NewInt(1)).Mod(num, P)
	den := new(big.Int).Mul(CurveD, x2)
	den.Sub(den, big.NewInt(1)).Mod(den, P)
	if den.Sign() == 0 {
		return nil // d is a non-residue, so this cannot happen; kept for totality
	}
	y2 := new(big.Int).Mul(num, new(big.Int).ModInverse(den, P))
	y2.Mod(y2, P)
	if y2.Sign() != 0 && big.Jacobi(y2, P) != 1 {
		return nil
	}
	y := new(big.Int).ModSqrt(y2, P)
	if y == nil {
		return nil
	}
	if y.Cmp(halfP) <= 0 {
		y = new(big.Int).Mod(new(big.Int).Neg(y), P)
	}
	return y
}

// subgroupOK: 1 - a*x^2 is a non-zero square.
func subgroupOK(x *big.Int) bool {
	x2 := new(big.Int).Mul(x, x)
	x2.Mod(x2, P)
	s := new(big.Int).Mul(CurveA, x2)
	s.Sub(big.NewInt(1), s).Mod(s, P)
	return s.Sign() != 0 && big.Jacobi(s, P) == 1
}

// DecodeCompressed is the acceptance predicate for a compressed encoding and,
// on success, the decoded point (the representative with the larger y).
func (g *Group[E]) DecodeCompressed(b []byte) (Pt[E], error) {
	if len(b) != 32 {
		return Pt[E]{}, ErrLength
	}
	x := new(big.Int).SetBytes(b)
	if x.Cmp(P) >= 0 {
		return Pt[E]{}, ErrNonCanonical
	}
	y := yFromX(x)
	if y == nil {
		return Pt[E]{}, ErrNotOnCurve
	}
	if !subgroupOK(x) {
		return Pt[E]{}, ErrNotSubgroup
	}
	return g.FromAffine(x, y), nil
}

// DecodeUncompressed is the acceptance predicate for the untrusted 64-byte form.
func (g *Group[E]) DecodeUncompressed(b []byte) (Pt[E], error) {
	if len(b) != 64 {
		return Pt[E]{}, ErrLength
	}
	x := new(big.Int).SetBytes(b[:32])
	yin := new(big.Int).SetBytes(b[32:])
	if x.Cmp(P) >= 0 || yin.Cmp(P) >= 0 {
		return Pt[E]{}, ErrNonCanonical
	}
	y := yFromX(x)
	if y == nil {
		return Pt[E]{}, ErrNotOnCurve
	}
	if y.Cmp(yin) != 0 {
		return Pt[E]{}, ErrWrongY
	}
	if !subgroupOK(x) {
		return Pt[E]{}, ErrNotSubgroup
	}
	return g.FromAffine(x, y), nil
}

// MapToScalar is x/y in the base field, as an integer, reduced modulo r.
func (g *Group[E]) MapToScalar(p Pt[E]) *big.Int {
	v := g.F.ToBig(g.F.Mul(p.X, g.F.Inv(p.Y)))
	return v.Mod(v, R)
}

// CRS returns the first n <= 256 points of the Verkle CRS:
// SHA-256("eth_verkle_oct_2021" || BE64(i)) mod p as x, kept when it decodes.
func (g *Group[E]) CRS() []Pt[E] {
	if g.crs != nil {
		return g.crs
	}
	var out []Pt[E]
	for i := uint64(0); len(out) < 256; i++ {
		h := sha256.New()
		h.Write([]byte("eth_verkle_oct_2021"))
		var b [8]byte
		binary.BigEndian.PutUint64(b[:], i)
		h.Write(b[:])
		x := new(big.Int).SetBytes(h.Sum(nil))
		x.Mod(x, P)
		if p, err := g.DecodeCompressed(BE32(x)); err == nil {
			out = append(out, p)
		}
	}
	g.crs = out
	return out
}

// Convert maps a point of one backend to another through its projective coordinates.
func Convert[A, B any](from *Group[A], to *Group[B], p Pt[A]) Pt[B] {
	return Pt[B]{
		to.F.FromBig(from.F.ToBig(p.X)),
		to.F.FromBig(from.F.ToBig(p.Y)),
		to.F.FromBig(from.F.ToBig(p.Z)),
	}
}

// EqualProj is Equal without inversions: cross-multiplied projective comparison
// of the two members of the Banderwagon class. Both points must have Z != 0.
func (g *Group[E]) EqualProj(p, q Pt[E]) bool {
	f := g.F
	if f.IsZero(p.Z) || f.IsZero(q.Z) {
		return false
	}
	x1, x2 := f.Mul(p.X, q.Z), f.Mul(q.X, p.Z)
	y1, y2 := f.Mul(p.Y, q.Z), f.Mul(q.Y, p.Z)
	if f.Equal(x1, x2) && f.Equal(y1, y2) {
		return true
	}
	return f.Equal(x1, f.Neg(x2)) && f.Equal(y1, f.Neg(y2))
}

// YFromX exposes the larger root y for x (nil when no curve point has this x). x must be < p.
func YFromX(x *big.Int) *big.Int { return yFromX(x) }

// SubgroupOK exposes the Banderwagon subgroup test on x: 1 - a*x^2 is a non-zero square.
func SubgroupOK(x *big.Int) bool { return subgroupOK(x) }
