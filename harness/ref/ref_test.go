package ref

import (
	"testing"
	"time"
)

func TestSelf(t *testing.T) {
	t0 := time.Now()
	if err := SelfTest(testing.Short() == false); err != nil {
		t.Fatal(err)
	}
	t.Logf("self-test %v", time.Since(t0))
}
