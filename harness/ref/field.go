// Package ref is an independent reference implementation of the Verkle
// cryptography specification (Bandersnatch / Banderwagon, Pedersen commitments,
// Fiat-Shamir transcript, IPA, multiproof), written in the textbook form of
// every algorithm. It shares no code with go-ipa. It is the oracle of the
// property checks in ../props.
//
// The group law and the protocols are written once, generic over a small field
// interface, and instantiated twice: over math/big (backend "big") and over the
// base-field type of the third-party dependency gnark-crypto (backend "fast").
package ref

import (
	"math/big"

	gfr "github.com/consensys/gnark-crypto/ecc/bls12-381/fr"
)

func mustBig(s string) *big.Int {
	v, ok := new(big.Int).SetString(s, 10)
	if !ok {
		panic("bad constant")
	}
	return v
}

var (
	// P is the base field modulus (the BLS12-381 scalar field).
	P = mustBig("52435875175126190479447740508185965837690552500527637822603658699938581184513")
	// R is the order of the prime-order subgroup (the Bandersnatch scalar field).
	R = mustBig("13108968793781547619861935127046491459309155893440570251786403306729687672801")
	// CurveA, CurveD: a*x^2 + y^2 = 1 + d*x^2*y^2 with a = -5.
	CurveA = new(big.Int).Sub(P, big.NewInt(5))
	CurveD = mustBig("45022363124591815672509500913686876175488063829319466900776701791074614335719")
	// GenX, GenY: the published generator of the prime-order subgroup.
	GenX = mustBig("18886178867200960497001835917649091219057080094937609519140440539760939937304")
	GenY = mustBig("19188667384257783945677642223292697773471335439753913231509108946878080696678")

	halfP = new(big.Int).Rsh(new(big.Int).Sub(P, big.NewInt(1)), 1) // (p-1)/2
)

// Field is the tiny interface the group law is written against.
type Field[E any] interface {
	Zero() E
	One() E
	Add(a, b E) E
	Sub(a, b E) E
	Mul(a, b E) E
	Neg(a E) E
	Inv(a E) E // Inv(0) = 0
	IsZero(a E) bool
	Equal(a, b E) bool
	FromBig(v *big.Int) E // v is reduced mod p
	ToBig(a E) *big.Int   // canonical representative in [0,p)
}

// BigF is the math/big backend of the base field.
type BigF struct{}

func (BigF) Zero() *big.Int { return new(big.Int) }
func (BigF) One() *big.Int  { return big.NewInt(1) }
func (BigF) Add(a, b *big.Int) *big.Int {
	r := new(big.Int).Add(a, b)
	return r.Mod(r, P)
}
func (BigF) Sub(a, b *big.Int) *big.Int {
	r := new(big.Int).Sub(a, b)
	return r.Mod(r, P)
}
func (BigF) Mul(a, b *big.Int) *big.Int {
	r := new(big.Int).Mul(a, b)
	return r.Mod(r, P)
}
func (BigF) Neg(a *big.Int) *big.Int {
	r := new(big.Int).Neg(a)
	return r.Mod(r, P)
}
func (BigF) Inv(a *big.Int) *big.Int {
	if new(big.Int).Mod(a, P).Sign() == 0 {
		return new(big.Int)
	}
	return new(big.Int).ModInverse(a, P)
}
func (BigF) IsZero(a *big.Int) bool      { return new(big.Int).Mod(a, P).Sign() == 0 }
func (BigF) Equal(a, b *big.Int) bool    { return new(big.Int).Mod(new(big.Int).Sub(a, b), P).Sign() == 0 }
func (BigF) FromBig(v *big.Int) *big.Int { return new(big.Int).Mod(v, P) }
func (BigF) ToBig(a *big.Int) *big.Int   { return new(big.Int).Mod(a, P) }

type fastE = gfr.Element

// FastF is the gnark-crypto backend of the base field (third-party code that is
// not part of go-ipa's repository).
type FastF struct{}

func (FastF) Zero() gfr.Element { return gfr.Element{} }
func (FastF) One() gfr.Element  { return gfr.One() }
func (FastF) Add(a, b gfr.Element) gfr.Element {
	var r gfr.Element
	r.Add(&a, &b)
	return r
}
func (FastF) Sub(a, b gfr.Element) gfr.Element {
	var r gfr.Element
	r.Sub(&a, &b)
	return r
}
func (FastF) Mul(a, b gfr.Element) gfr.Element {
	var r gfr.Element
	r.Mul(&a, &b)
	return r
}
func (FastF) Neg(a gfr.Element) gfr.Element {
	var r gfr.Element
	r.Neg(&a)
	return r
}
func (FastF) Inv(a gfr.Element) gfr.Element {
	var r gfr.Element
	r.Inverse(&a)
	return r
}
func (FastF) IsZero(a gfr.Element) bool   { return a.IsZero() }
func (FastF) Equal(a, b gfr.Element) bool { return a.Equal(&b) }
func (FastF) FromBig(v *big.Int) gfr.Element {
	var r gfr.Element
	r.SetBigInt(v)
	return r
}
func (FastF) ToBig(a gfr.Element) *big.Int {
	var r big.Int
	a.BigInt(&r)
	return &r
}

// ---- scalar field (integers mod r), always math/big ----

func FrMod(a *big.Int) *big.Int { return new(big.Int).Mod(a, R) }
func FrAdd(a, b *big.Int) *big.Int {
	r := new(big.Int).Add(a, b)
	return r.Mod(r, R)
}
func FrSub(a, b *big.Int) *big.Int {
	r := new(big.Int).Sub(a, b)
	return r.Mod(r, R)
}
func FrMul(a, b *big.Int) *big.Int {
	r := new(big.Int).Mul(a, b)
	return r.Mod(r, R)
}
func FrNeg(a *big.Int) *big.Int {
	r := new(big.Int).Neg(a)
	return r.Mod(r, R)
}

// FrInv returns the inverse modulo r, and 0 for 0.
func FrInv(a *big.Int) *big.Int {
	if new(big.Int).Mod(a, R).Sign() == 0 {
		return new(big.Int)
	}
	return new(big.Int).ModInverse(new(big.Int).Mod(a, R), R)
}

// FrInner returns <a,b> mod r.
func FrInner(a, b []*big.Int) *big.Int {
	s := new(big.Int)
	t := new(big.Int)
	for i := range a {
		t.Mul(a[i], b[i])
		s.Add(s, t)
	}
	return s.Mod(s, R)
}

// LE32 returns the 32-byte little-endian encoding of 0 <= v < 2^256.
func LE32(v *big.Int) []byte {
	b := make([]byte, 32)
	v.FillBytes(b)
	for i, j := 0, 31; i < j; i, j = i+1, j-1 {
		b[i], b[j] = b[j], b[i]
	}
	return b
}

// BE32 returns the 32-byte big-endian encoding of 0 <= v < 2^256.
func BE32(v *big.Int) []byte {
	b := make([]byte, 32)
	v.FillBytes(b)
	return b
}

// FromLE interprets b as a little-endian unsigned integer.
func FromLE(b []byte) *big.Int {
	rev := make([]byte, len(b))
	for i := range b {
		rev[len(b)-1-i] = b[i]
	}
	return new(big.Int).SetBytes(rev)
}
