package ref

import (
	"crypto/sha256"
	"errors"
	"math/big"
)

// Transcript is the specification's Fiat-Shamir hash chain: one byte buffer
// that starts with the protocol label; a challenge hashes the buffer, reads the
// digest little-endian modulo r, clears the buffer and re-absorbs the challenge
// under its label.
type Transcript struct{ buf []byte }

func NewTranscript(label string) *Transcript { return &Transcript{buf: []byte(label)} }

func (t *Transcript) DomainSep(label []byte) { t.buf = append(t.buf, label...) }
func (t *Transcript) AppendMessage(msg, label []byte) {
	t.buf = append(t.buf, label...)
	t.buf = append(t.buf, msg...)
}
func (t *Transcript) AppendScalar(s *big.Int, label []byte) { t.AppendMessage(LE32(FrMod(s)), label) }
func (t *Transcript) Challenge(label []byte) *big.Int {
	t.DomainSep(label)
	h := sha256.Sum256(t.buf)
	c := FromLE(h[:])
	c.Mod(c, R)
	t.buf = nil
	t.AppendScalar(c, label)
	return c
}

// Pending returns the number of bytes absorbed since the last challenge.
func (t *Transcript) Pending() int { return len(t.buf) }

// AppendPoint absorbs the compressed encoding of p.
func AppendPoint[E any](g *Group[E], t *Transcript, p Pt[E], label []byte) {
	c := g.Compress(p)
	t.AppendMessage(c[:], label)
}

// ---------------- polynomials over the domain 0..255 ----------------

const N = 256

var (
	aPrime    [N]*big.Int // A'(j) = prod_{i != j} (j - i)
	aPrimeInv [N]*big.Int
)

func init() {
	for j := 0; j < N; j++ {
		p := big.NewInt(1)
		for i := 0; i < N; i++ {
			if i != j {
				p = FrMul(p, FrMod(big.NewInt(int64(j-i))))
			}
		}
		aPrime[j] = p
		aPrimeInv[j] = FrInv(p)
	}
}

// APrime returns A'(j) (for the C18 table check).
func APrime(j int) *big.Int { return new(big.Int).Set(aPrime[j]) }

// LagrangeCoeffs returns L_i(z) = prod_{j != i} (z - j)/(i - j) by the defining products.
func LagrangeCoeffs(z *big.Int) []*big.Int {
	out := make([]*big.Int, N)
	for i := 0; i < N; i++ {
		num := big.NewInt(1)
		for j := 0; j < N; j++ {
			if j != i {
				num = FrMul(num, FrSub(z, big.NewInt(int64(j))))
			}
		}
		out[i] = FrMul(num, aPrimeInv[i])
	}
	return out
}

// EvalAt returns p(z) for the interpolating polynomial of the evaluations f.
func EvalAt(f []*big.Int, z *big.Int) *big.Int {
	zz := FrMod(z)
	if zz.Cmp(big.NewInt(N)) < 0 {
		return FrMod(f[zz.Int64()])
	}
	return FrInner(f, LagrangeCoeffs(zz))
}

// BVector is the vector b with <f, b> = p(z): a unit vector inside the domain,
// the Lagrange coefficients outside.
func BVector(z *big.Int) []*big.Int {
	zz := FrMod(z)
	if zz.Cmp(big.NewInt(N)) < 0 {
		b := make([]*big.Int, N)
		for i := range b {
			b[i] = new(big.Int)
		}
		b[zz.Int64()] = big.NewInt(1)
		return b
	}
	return LagrangeCoeffs(zz)
}

// QuotientEval returns the evaluation form of (p(X) - p(k))/(X - k), from the
// defining identities: q_j = (f_j - f_k)/(j - k) for j != k and
// q_k = p'(k) = -sum_{j != k} A'(k)/A'(j) * q_j.
func QuotientEval(f []*big.Int, k int) []*big.Int {
	q := make([]*big.Int, N)
	acc := new(big.Int)
	for j := 0; j < N; j++ {
		if j == k {
			continue
		}
		q[j] = FrMul(FrSub(f[j], f[k]), FrInv(FrMod(big.NewInt(int64(j-k)))))
		acc = FrAdd(acc, FrMul(q[j], aPrimeInv[j]))
	}
	q[k] = FrMul(FrNeg(acc), aPrime[k])
	return q
}

// Interpolate returns the coefficients (low to high) of the degree < 256
// polynomial through (i, f_i), by Newton's divided differences.
func Interpolate(f []*big.Int) []*big.Int {
	n := len(f)
	dd := make([]*big.Int, n)
	for i := range dd {
		dd[i] = FrMod(f[i])
	}
	for lvl := 1; lvl < n; lvl++ {
		inv := FrInv(big.NewInt(int64(lvl)))
		for i := n - 1; i >= lvl; i-- {
			dd[i] = FrMul(FrSub(dd[i], dd[i-1]), inv)
		}
	}
	// expand Newton form: p = dd[0] + (X-0)(dd[1] + (X-1)(dd[2] + ...))
	coeffs := []*big.Int{new(big.Int).Set(dd[n-1])}
	for i := n - 2; i >= 0; i-- {
		// coeffs = coeffs*(X - i) + dd[i]
		next := make([]*big.Int, len(coeffs)+1)
		for k := range next {
			next[k] = new(big.Int)
		}
		mi := FrMod(big.NewInt(int64(-i)))
		for k, c := range coeffs {
			next[k+1] = FrAdd(next[k+1], c)
			next[k] = FrAdd(next[k], FrMul(c, mi))
		}
		next[0] = FrAdd(next[0], dd[i])
		coeffs = next
	}
	for len(coeffs) < n {
		coeffs = append(coeffs, new(big.Int))
	}
	return coeffs[:n]
}

// Horner evaluates a coefficient-form polynomial at z.
func Horner(coeffs []*big.Int, z *big.Int) *big.Int {
	acc := new(big.Int)
	for i := len(coeffs) - 1; i >= 0; i-- {
		acc = FrAdd(FrMul(acc, z), coeffs[i])
	}
	return acc
}

// SyntheticDivide returns the quotient of (p(X) - p(k)) by (X - k), coefficient form.
func SyntheticDivide(coeffs []*big.Int, k *big.Int) []*big.Int {
	n := len(coeffs)
	q := make([]*big.Int, n)
	for i := range q {
		q[i] = new(big.Int)
	}
	// p(X) = (X-k) q(X) + p(k): q_{n-2} = c_{n-1}, q_{i-1} = c_i + k q_i
	carry := new(big.Int)
	for i := n - 1; i >= 1; i-- {
		carry = FrAdd(coeffs[i], FrMul(carry, k))
		q[i-1] = carry
	}
	return q
}

// ---------------- IPA ----------------

// IPAProof holds L_1..L_8, R_1..R_8 and the final scalar.
type IPAProof[E any] struct {
	L, R []Pt[E]
	A    *big.Int
}

var (
	lblIPA = []byte("ipa")
	lblC   = []byte("C")
	lblIn  = []byte("input point")
	lblOut = []byte("output point")
	lblW   = []byte("w")
	lblL   = []byte("L")
	lblR   = []byte("R")
	lblX   = []byte("x")

	lblMP = []byte("multiproof")
	lblZ  = []byte("z")
	lblY  = []byte("y")
	lblD  = []byte("D")
	lblE  = []byte("E")
	lblT  = []byte("t")
	lblRr = []byte("r")
)

// IPAProve is the specification's prover for commitment C to evaluations a at point z.
func IPAProve[E any](g *Group[E], tr *Transcript, C Pt[E], a []*big.Int, z *big.Int) IPAProof[E] {
	G := g.CRS()
	Q := g.Generator()
	tr.DomainSep(lblIPA)
	b := BVector(z)
	aa := make([]*big.Int, N)
	for i := range aa {
		aa[i] = FrMod(a[i])
	}
	a = aa
	y := FrInner(a, b)
	AppendPoint(g, tr, C, lblC)
	tr.AppendScalar(z, lblIn)
	tr.AppendScalar(y, lblOut)
	w := tr.Challenge(lblW)
	q := g.Mul(Q, w)
	var proof IPAProof[E]
	for n := N / 2; n >= 1; n /= 2 {
		aL, aR, bL, bR, GL, GR := a[:n], a[n:], b[:n], b[n:], G[:n], G[n:]
		zL, zR := FrInner(aR, bL), FrInner(aL, bR)
		CL := g.Add(g.MSM(GL, aR), g.Mul(q, zL))
		CR := g.Add(g.MSM(GR, aL), g.Mul(q, zR))
		proof.L = append(proof.L, CL)
		proof.R = append(proof.R, CR)
		AppendPoint(g, tr, CL, lblL)
		AppendPoint(g, tr, CR, lblR)
		x := tr.Challenge(lblX)
		xi := FrInv(x)
		na, nb, nG := make([]*big.Int, n), make([]*big.Int, n), make([]Pt[E], n)
		for i := 0; i < n; i++ {
			na[i] = FrAdd(aL[i], FrMul(x, aR[i]))
			nb[i] = FrAdd(bL[i], FrMul(xi, bR[i]))
			nG[i] = g.Add(GL[i], g.Mul(GR[i], xi))
		}
		a, b, G = na, nb, nG
	}
	proof.A = a[0]
	return proof
}

// ErrShape is returned by the reference verifiers for statements or proofs of the wrong shape.
var ErrShape = errors.New("ref: wrong shape")

// IPAVerify is the specification's verifier, folding the basis explicitly round by round.
func IPAVerify[E any](g *Group[E], tr *Transcript, C Pt[E], proof IPAProof[E], z, y *big.Int) (bool, error) {
	if len(proof.L) != len(proof.R) || len(proof.L) != 8 {
		return false, ErrShape
	}
	G := g.CRS()
	Q := g.Generator()
	tr.DomainSep(lblIPA)
	b := BVector(z)
	AppendPoint(g, tr, C, lblC)
	tr.AppendScalar(z, lblIn)
	tr.AppendScalar(y, lblOut)
	w := tr.Challenge(lblW)
	q := g.Mul(Q, w)
	cur := g.Add(C, g.Mul(q, FrMod(y)))
	n := N / 2
	for i := 0; i < 8; i++ {
		AppendPoint(g, tr, proof.L[i], lblL)
		AppendPoint(g, tr, proof.R[i], lblR)
		x := tr.Challenge(lblX)
		xi := FrInv(x)
		cur = g.Add(cur, g.Add(g.Mul(proof.L[i], x), g.Mul(proof.R[i], xi)))
		nb, nG := make([]*big.Int, n), make([]Pt[E], n)
		for j := 0; j < n; j++ {
			nb[j] = FrAdd(b[j], FrMul(xi, b[n+j]))
			nG[j] = g.Add(G[j], g.Mul(G[n+j], xi))
		}
		b, G = nb, nG
		n /= 2
	}
	a := FrMod(proof.A)
	got := g.Add(g.Mul(G[0], a), g.Mul(q, FrMul(a, b[0])))
	if !g.IsValid(got) || !g.IsValid(cur) {
		return false, nil
	}
	return g.Equal(got, cur), nil
}

// IPASerialize is L_1..L_8 | R_1..R_8 | a (little-endian).
func IPASerialize[E any](g *Group[E], p IPAProof[E]) []byte {
	var out []byte
	for _, l := range p.L {
		c := g.Compress(l)
		out = append(out, c[:]...)
	}
	for _, r := range p.R {
		c := g.Compress(r)
		out = append(out, c[:]...)
	}
	return append(out, LE32(FrMod(p.A))...)
}

// ---------------- Pedersen commitment ----------------

// Commit is sum v_i * G_i over the CRS.
func Commit[E any](g *Group[E], v []*big.Int) Pt[E] {
	return g.MSM(g.CRS()[:len(v)], v)
}

// ---------------- multiproof ----------------

type MultiProof[E any] struct {
	D   Pt[E]
	IPA IPAProof[E]
}

// MultiProve is the specification's multiproof prover.
func MultiProve[E any](g *Group[E], tr *Transcript, Cs []Pt[E], fs [][]*big.Int, zs []int) MultiProof[E] {
	tr.DomainSep(lblMP)
	for i := range Cs {
		AppendPoint(g, tr, Cs[i], lblC)
		tr.AppendScalar(big.NewInt(int64(zs[i])), lblZ)
		tr.AppendScalar(fs[i][zs[i]], lblY)
	}
	r := tr.Challenge(lblRr)
	// group r^i * f_i per evaluation index with a plain map
	groups := map[int][]*big.Int{}
	rp := big.NewInt(1)
	for i := range fs {
		acc, ok := groups[zs[i]]
		if !ok {
			acc = make([]*big.Int, N)
			for j := range acc {
				acc[j] = new(big.Int)
			}
			groups[zs[i]] = acc
		}
		for j := 0; j < N; j++ {
			acc[j] = FrAdd(acc[j], FrMul(rp, fs[i][j]))
		}
		rp = FrMul(rp, r)
	}
	gx := make([]*big.Int, N)
	for j := range gx {
		gx[j] = new(big.Int)
	}
	for z, f := range groups {
		q := QuotientEval(f, z)
		for j := range gx {
			gx[j] = FrAdd(gx[j], q[j])
		}
	}
	D := Commit(g, gx)
	AppendPoint(g, tr, D, lblD)
	t := tr.Challenge(lblT)
	hx := make([]*big.Int, N)
	for j := range hx {
		hx[j] = new(big.Int)
	}
	for z, f := range groups {
		den := FrInv(FrSub(t, big.NewInt(int64(z))))
		for j := range hx {
			hx[j] = FrAdd(hx[j], FrMul(f[j], den))
		}
	}
	E_ := Commit(g, hx)
	AppendPoint(g, tr, E_, lblE)
	hmg := make([]*big.Int, N)
	for j := range hmg {
		hmg[j] = FrSub(hx[j], gx[j])
	}
	ipa := IPAProve(g, tr, g.Sub(E_, D), hmg, t)
	return MultiProof[E]{D: D, IPA: ipa}
}

// MultiVerify is the specification's multiproof verifier.
func MultiVerify[E any](g *Group[E], tr *Transcript, proof MultiProof[E], Cs []Pt[E], ys []*big.Int, zs []int) (bool, error) {
	tr.DomainSep(lblMP)
	if len(Cs) != len(ys) || len(Cs) != len(zs) || len(Cs) == 0 {
		return false, ErrShape
	}
	for i := range Cs {
		AppendPoint(g, tr, Cs[i], lblC)
		tr.AppendScalar(big.NewInt(int64(zs[i])), lblZ)
		tr.AppendScalar(ys[i], lblY)
	}
	r := tr.Challenge(lblRr)
	AppendPoint(g, tr, proof.D, lblD)
	t := tr.Challenge(lblT)
	g2 := new(big.Int)
	E_ := g.Identity()
	rp := big.NewInt(1)
	for i := range Cs {
		den := FrInv(FrSub(t, big.NewInt(int64(zs[i]))))
		coef := FrMul(rp, den)
		g2 = FrAdd(g2, FrMul(coef, ys[i]))
		E_ = g.Add(E_, g.Mul(Cs[i], coef))
		rp = FrMul(rp, r)
	}
	AppendPoint(g, tr, E_, lblE)
	return IPAVerify(g, tr, g.Sub(E_, proof.D), proof.IPA, t, g2)
}

// MultiSerialize is D | IPA proof.
func MultiSerialize[E any](g *Group[E], p MultiProof[E]) []byte {
	c := g.Compress(p.D)
	return append(c[:], IPASerialize(g, p.IPA)...)
}
