//go:build verif && verif_fr

package props

import (
	"math/big"
	"testing"

	"verif/harness/hx"
	"verif/harness/ref"
)

// FuzzC15Ops: coverage-guided search over (operation, aliasing form, operands as raw limbs) against math/big.
// Layout: op | alias | constant | 32 bytes x | 32 bytes y | up to 8 more 32-byte vector entries.
func FuzzC15Ops(f *testing.F) {
	var names []string
	for _, o := range c15BinCheap {
		names = append(names, o.name)
	}
	for _, o := range c15BinCostly {
		names = append(names, o.name)
	}
	for _, o := range c15Unary {
		names = append(names, o.name)
	}
	names = append(names, "misc", "sqrt", "batchinvert", "mulByConstant")
	for i := range names {
		for j := i % 7; j < len(c15Bound); j += 1 + len(c15Bound)/3 {
			b := []byte{byte(i), byte(j % 5), byte(j)}
			b = append(b, ref.BE32(hx.FrRaw(&c15Bound[j]))...)
			b = append(b, ref.BE32(hx.FrRaw(&c15Bound[(j*3+1)%len(c15Bound)]))...)
			f.Add(b)
		}
	}
	operand := func(b []byte) string {
		v := new(big.Int).SetBytes(b)
		return v.Mod(v, ref.R).Text(16)
	}
	f.Fuzz(func(t *testing.T, b []byte) {
		if len(b) < 3+64 {
			return
		}
		c := c15Case{Op: names[int(b[0])%len(names)], Alias: int(b[1]) % 5, C: int(b[2]), X: operand(b[3:35]), Y: operand(b[35:67])}
		if c.Op == "batchinvert" {
			rest := b[67:]
			for len(rest) >= 32 && len(c.Vec) < 8 {
				c.Vec = append(c.Vec, operand(rest[:32]))
				rest = rest[32:]
			}
			c.Vec = append(c.Vec, c.X, "0", c.Y)
		}
		if err := evalC15(c, fuzzRec); err != nil {
			fuzzFail(t, "C15", "ops", c, err)
		}
	})
}
