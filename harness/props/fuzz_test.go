//go:build verif && verif_elem

package props

import (
	"math/big"
	"testing"

	"verif/harness/hx"
	"verif/harness/ref"
)

// Native coverage-guided fuzz targets (thorough tier). The semantic oracle of the property runs inside the
// target; a failing input is also written as a JSON replay file so that `./check <ID> --replay` can re-run it.

func hostile32() [][]byte {
	var out [][]byte
	for _, name := range c06ConstNames {
		out = append(out, be32any(c06Consts[name]))
	}
	g := hx.G.Compress(hx.G.Generator())
	out = append(out, g[:])
	x := new(big.Int).SetBytes(g[:])
	out = append(out, be32any(new(big.Int).Add(x, ref.P)), be32any(new(big.Int).Sub(ref.P, x)), be32any(findX(1, true, false)), be32any(findX(2, false, false)))
	return out
}

func FuzzC06Compressed(f *testing.F) {
	for _, b := range hostile32() {
		f.Add(b)
		f.Add(append(append([]byte(nil), b...), 0))
		f.Add(b[:31])
	}
	f.Fuzz(func(t *testing.T, b []byte) {
		for _, form := range []string{"compressed", "readpoint"} {
			c := c06Case{Form: form, Bytes: hx.HexBytes(b), Class: "fuzz", Chunk: len(b) % 3}
			if err := evalC06(c, fuzzRec); err != nil {
				fuzzFail(t, "C06", "decode", c, err)
			}
		}
	})
}

func FuzzC06Uncompressed(f *testing.F) {
	hs := hostile32()
	for i, x := range hs {
		xv := new(big.Int).SetBytes(x)
		xv.Mod(xv, ref.P)
		y := ref.YFromX(xv)
		if y == nil {
			y = big.NewInt(int64(i))
		}
		for _, yb := range [][]byte{be32any(y), be32any(new(big.Int).Sub(ref.P, y)), be32any(new(big.Int).Add(y, ref.P)), hs[(i+1)%len(hs)]} {
			f.Add(append(append([]byte(nil), x...), yb...))
		}
	}
	f.Fuzz(func(t *testing.T, b []byte) {
		c := c06Case{Form: "uncompressed", Bytes: hx.HexBytes(b), Class: "fuzz"}
		if err := evalC06(c, fuzzRec); err != nil {
			fuzzFail(t, "C06", "decode", c, err)
		}
	})
}

func FuzzC16Decode(f *testing.F) {
	vals := c16Values()
	for _, name := range c16ValueNames {
		f.Add(ref.LE32(new(big.Int).Mod(vals[name], two256)))
		f.Add(ref.BE32(new(big.Int).Mod(vals[name], two256)))
	}
	f.Add([]byte{})
	f.Add(make([]byte, 33))
	f.Fuzz(func(t *testing.T, b []byte) {
		if len(b) > 96 {
			b = b[:96]
		}
		c := c16Case{Bytes: hx.HexBytes(b), Class: "fuzz"}
		if err := evalC16(c, fuzzRec); err != nil {
			fuzzFail(t, "C16", "decode", c, err)
		}
	})
}

// fuzzProofBytes evaluates the C10 oracle on raw proof bytes through several readers.
func fuzzProofBytes(t *testing.T, kind string, b []byte) {
	for _, rd := range []string{"whole", "dataeof", "onebyte"} {
		c := c10Raw{Kind: kind, Bytes: hx.HexBytes(b), Reader: rd, Chunk: 1 + len(b)%64}
		if err := evalC10Raw(c, fuzzRec); err != nil {
			fuzzFail(t, "C10", "raw", c, err)
		}
	}
}

func FuzzC10MultiProofRead(f *testing.F) {
	c10Pool()
	for seed := uint64(0); seed < 4; seed++ {
		base := c10Case{Kind: "multi", Base: "valid", Seed: seed, Field: -1}.bytesOf()
		f.Add(base)
		f.Add(append(append([]byte(nil), base...), 0x42))
		f.Add(base[:575])
		for _, r := range c10ScalarRepl {
			f.Add(c10Case{Kind: "multi", Base: "valid", Seed: seed, Field: 17, Repl: r}.bytesOf())
		}
		for i, r := range c10PointRepl {
			f.Add(c10Case{Kind: "multi", Base: "valid", Seed: seed, Field: (i * 2) % 17, Repl: r}.bytesOf())
		}
	}
	f.Fuzz(func(t *testing.T, b []byte) { fuzzProofBytes(t, "multi", b) })
}

func FuzzC10IPAProofRead(f *testing.F) {
	c10Pool()
	for seed := uint64(0); seed < 4; seed++ {
		base := c10Case{Kind: "ipa", Base: "valid", Seed: seed, Field: -1}.bytesOf()
		f.Add(base)
		f.Add(base[:543])
		for _, r := range c10ScalarRepl {
			f.Add(c10Case{Kind: "ipa", Base: "valid", Seed: seed, Field: 16, Repl: r}.bytesOf())
		}
		for i, r := range c10PointRepl {
			f.Add(c10Case{Kind: "ipa", Base: "valid", Seed: seed, Field: (i * 2) % 16, Repl: r}.bytesOf())
		}
	}
	f.Fuzz(func(t *testing.T, b []byte) { fuzzProofBytes(t, "ipa", b) })
}
