//go:build verif && verif_fr

package props

import (
	"fmt"
	"math/big"
	"os"
	"sort"
	"testing"

	"github.com/crate-crypto/go-ipa/bandersnatch/fr"
	"pgregory.net/rapid"

	"verif/harness/hx"
	"verif/harness/ref"
)

// C15 — scalar-field arithmetic agrees with integer arithmetic modulo r, in every build configuration.
//
// All operands are built directly from limbs and all results are read from limbs; the oracle works on the
// VALUE of an element (limbs * 2^-256 mod r) with math/big and converts the expected value back to limbs,
// so a result must be bit-identical to the fully reduced expected representation.

var (
	bigR256  = new(big.Int).Lsh(big.NewInt(1), 256)
	rHalf    = new(big.Int).Rsh(ref.R, 1) // (r-1)/2
	c15Bound []fr.Element                 // the boundary set (raw limb patterns < r)
)

func toRaw(v *big.Int) fr.Element { // value -> limbs (Montgomery form)
	m := new(big.Int).Mul(new(big.Int).Mod(v, ref.R), bigR256)
	return hx.FrSetRaw(m.Mod(m, ref.R))
}

func valueOf(e *fr.Element) *big.Int { return hx.FrToBig(e) }

func init() {
	q := hx.FrSetRaw(ref.R) // modulus limbs
	seen := map[fr.Element]bool{}
	add := func(e fr.Element) {
		if hx.FrRaw(&e).Cmp(ref.R) < 0 && !seen[e] {
			seen[e] = true
			c15Bound = append(c15Bound, e)
		}
	}
	limbVals := func(i int) []uint64 {
		return []uint64{0, 1, 1 << 63, ^uint64(0), q[i] - 1, q[i], q[i] + 1}
	}
	for _, a := range limbVals(0) {
		for _, b := range limbVals(1) {
			for _, c := range limbVals(2) {
				for _, d := range limbVals(3) {
					add(fr.Element{a, b, c, d})
				}
			}
		}
	}
	centers := []*big.Int{big.NewInt(0), new(big.Int).Rsh(ref.R, 1), new(big.Int).Set(ref.R), new(big.Int).Mod(bigR256, ref.R),
		new(big.Int).Mod(new(big.Int).Mul(bigR256, bigR256), ref.R), new(big.Int).ModInverse(bigR256, ref.R)}
	for _, c := range centers {
		for d := int64(-2); d <= 2; d++ {
			v := new(big.Int).Add(c, big.NewInt(d))
			if v.Sign() >= 0 && v.Cmp(ref.R) < 0 {
				add(hx.FrSetRaw(v))
			}
		}
	}
	sort.Slice(c15Bound, func(i, j int) bool { return hx.FrRaw(&c15Bound[i]).Cmp(hx.FrRaw(&c15Bound[j])) < 0 })
}

type binOp struct {
	name string
	impl func(z, x, y *fr.Element)
	want func(x, y *big.Int) *big.Int // on values
}

func mulmod(a, b *big.Int) *big.Int { return ref.FrMul(a, b) }

var c15BinCheap = []binOp{
	{"Add", func(z, x, y *fr.Element) { z.Add(x, y) }, ref.FrAdd},
	{"Sub", func(z, x, y *fr.Element) { z.Sub(x, y) }, ref.FrSub},
	{"Mul", func(z, x, y *fr.Element) { z.Mul(x, y) }, mulmod},
	{"addGeneric", func(z, x, y *fr.Element) { fr.VerifAddGeneric(z, x, y) }, ref.FrAdd},
	{"subGeneric", func(z, x, y *fr.Element) { fr.VerifSubGeneric(z, x, y) }, ref.FrSub},
	{"mulGeneric", func(z, x, y *fr.Element) { fr.VerifMulGeneric(z, x, y) }, mulmod},
}

var c15BinCostly = []binOp{
	{"Div", func(z, x, y *fr.Element) { z.Div(x, y) }, func(x, y *big.Int) *big.Int { return ref.FrMul(x, ref.FrInv(y)) }},
	{"Exp", func(z, x, y *fr.Element) { var e big.Int; y.ToBigIntRegular(&e); z.Exp(*x, &e) }, func(x, y *big.Int) *big.Int { return new(big.Int).Exp(x, y, ref.R) }},
	// exponents wider than the field: y + k*(r-1) and multiples of r-1 (Fermat: x^(r-1) = 1 for x != 0)
	{"ExpWide", func(z, x, y *fr.Element) { z.Exp(*x, wideExp(valueOf(y))) }, func(x, y *big.Int) *big.Int { return new(big.Int).Exp(x, wideExp(y), ref.R) }},
}

// wideExp turns a field value into a non-negative exponent of up to ~512 bits, by a rule that depends on its low bits.
func wideExp(y *big.Int) *big.Int {
	rm1 := new(big.Int).Sub(ref.R, big.NewInt(1))
	switch y.Bit(0) + 2*y.Bit(1) + 4*y.Bit(2) {
	case 0:
		return new(big.Int).Lsh(rm1, 1) // 2(r-1)
	case 1:
		return new(big.Int).Add(y, new(big.Int).Lsh(rm1, 1))
	case 2:
		return new(big.Int).Lsh(rm1, 64)
	case 3:
		return new(big.Int).Mul(rm1, rm1)
	case 4:
		return new(big.Int).Add(new(big.Int).Mul(rm1, big.NewInt(3)), big.NewInt(int64(y.Bit(5)+1)))
	case 5:
		return new(big.Int).Lsh(y, 130)
	case 6:
		return new(big.Int).Set(rm1)
	}
	return new(big.Int).Add(y, rm1)
}

type unOp struct {
	name string
	impl func(z, x *fr.Element) // z may alias x
	want func(x *big.Int) *big.Int
}

func constMul(k int64) func(*big.Int) *big.Int {
	return func(x *big.Int) *big.Int { return ref.FrMul(x, big.NewInt(k)) }
}

var c15Unary = []unOp{
	{"Neg", func(z, x *fr.Element) { z.Neg(x) }, ref.FrNeg},
	{"Double", func(z, x *fr.Element) { z.Double(x) }, constMul(2)},
	{"Square", func(z, x *fr.Element) { z.Square(x) }, func(x *big.Int) *big.Int { return ref.FrMul(x, x) }},
	{"Inverse", func(z, x *fr.Element) { z.Inverse(x) }, ref.FrInv},
	{"negGeneric", func(z, x *fr.Element) { fr.VerifNegGeneric(z, x) }, ref.FrNeg},
	{"doubleGeneric", func(z, x *fr.Element) { fr.VerifDoubleGeneric(z, x) }, constMul(2)},
	{"MulBy3", func(z, x *fr.Element) { *z = *x; fr.MulBy3(z) }, constMul(3)},
	{"MulBy5", func(z, x *fr.Element) { *z = *x; fr.MulBy5(z) }, constMul(5)},
	{"MulBy13", func(z, x *fr.Element) { *z = *x; fr.MulBy13(z) }, constMul(13)},
	{"Set", func(z, x *fr.Element) { z.Set(x) }, func(x *big.Int) *big.Int { return x }},
	{"SetBigInt", func(z, x *fr.Element) { z.SetBigInt(valueOf(x)) }, func(x *big.Int) *big.Int { return x }},
	{"SetBigInt+kr", func(z, x *fr.Element) {
		v := valueOf(x)
		z.SetBigInt(v.Add(v, new(big.Int).Lsh(ref.R, 3)))
	}, func(x *big.Int) *big.Int { return x }},
	{"SetBigInt-r", func(z, x *fr.Element) { v := valueOf(x); z.SetBigInt(v.Sub(v, ref.R)) }, func(x *big.Int) *big.Int { return x }},
	{"ToMont∘FromMont", func(z, x *fr.Element) { *z = *x; z.FromMont(); z.ToMont() }, func(x *big.Int) *big.Int { return x }},
}

// checkResult compares limbs with the expected value's fully reduced representation.
func checkResult(op string, got *fr.Element, want *big.Int, args ...*fr.Element) error {
	exp := toRaw(want)
	if *got != exp {
		as := ""
		for _, a := range args {
			as += fmt.Sprintf(" %016x_%016x_%016x_%016x", a[3], a[2], a[1], a[0])
		}
		return fmt.Errorf("%s(limbs%s) = limbs %016x_%016x_%016x_%016x, expected %016x_%016x_%016x_%016x (value %s) [config %s, adx=%v]",
			op, as, got[3], got[2], got[1], got[0], exp[3], exp[2], exp[1], exp[0], want.Text(16), os.Getenv("VERIF_VARIANT"), fr.VerifSupportAdx())
	}
	return nil
}

type c15Case struct {
	Op    string   `json:"op"`
	X     string   `json:"x"` // raw limbs as hex integer
	Y     string   `json:"y,omitempty"`
	Alias int      `json:"alias,omitempty"` // 0 fresh, 1 z=x, 2 z=y, 3 x=y, 4 all
	Vec   []string `json:"vec,omitempty"`   // BatchInvert input (raw limbs)
	C     int      `json:"c,omitempty"`     // mulByConstant constant
}

func rawFromHex(s string) fr.Element {
	v := hx.BigHex(s)
	if v.Cmp(ref.R) >= 0 {
		v.Mod(v, ref.R)
	}
	return hx.FrSetRaw(v)
}

func evalBin(op binOp, x, y fr.Element, alias int) error {
	xv, yv := valueOf(&x), valueOf(&y)
	if alias == 3 || alias == 4 {
		y, yv = x, xv
	}
	want := op.want(xv, yv)
	var z fr.Element
	z = hx.FrSetRaw(new(big.Int).Sub(ref.R, big.NewInt(0x5eed))) // dirty receiver, every limb non-zero
	xs, ys := x, y
	var got fr.Element
	perr := hx.Try(func() {
		switch alias {
		case 1:
			op.impl(&xs, &xs, &ys)
			got = xs
		case 2:
			op.impl(&ys, &xs, &ys)
			got = ys
		case 3:
			op.impl(&z, &xs, &xs)
			got = z
		case 4:
			op.impl(&xs, &xs, &xs)
			got = xs
		default:
			op.impl(&z, &xs, &ys)
			got = z
			if xs != x || ys != y {
				panic("operand modified")
			}
		}
	})
	if perr != nil {
		return fmt.Errorf("%s: %w", op.name, perr)
	}
	return checkResult(fmt.Sprintf("%s[alias %d]", op.name, alias), &got, want, &x, &y)
}

func evalUn(op unOp, x fr.Element, alias bool) error {
	xv := valueOf(&x)
	want := op.want(xv)
	xs := x
	var got fr.Element
	perr := hx.Try(func() {
		if alias {
			op.impl(&xs, &xs)
			got = xs
		} else {
			var z fr.Element
			z = hx.FrSetRaw(new(big.Int).Sub(ref.R, big.NewInt(0x5eed))) // dirty receiver, every limb non-zero
			op.impl(&z, &xs)
			got = z
			if xs != x {
				panic("operand modified")
			}
		}
	})
	if perr != nil {
		return fmt.Errorf("%s: %w", op.name, perr)
	}
	return checkResult(op.name, &got, want, &x)
}

// evalMisc checks the operations whose result is not a field element, on one operand pair.
func evalMisc(x, y fr.Element) error {
	xv, yv := valueOf(&x), valueOf(&y)
	xs, ys := x, y
	// Cmp, Equal, IsZero, LexicographicallyLargest, Legendre, Sqrt, conversions
	if got, want := xs.Cmp(&ys), xv.Cmp(yv); got != want {
		return fmt.Errorf("Cmp(values %s, %s) = %d, integers compare %d", xv.Text(16), yv.Text(16), got, want)
	}
	if got, want := xs.Equal(&ys), xv.Cmp(yv) == 0; got != want {
		return fmt.Errorf("Equal(values %s, %s) = %v", xv.Text(16), yv.Text(16), got)
	}
	if got, want := xs.IsZero(), xv.Sign() == 0; got != want {
		return fmt.Errorf("IsZero(value %s) = %v", xv.Text(16), got)
	}
	if got, want := xs.LexicographicallyLargest(), xv.Cmp(rHalf) > 0; got != want {
		return fmt.Errorf("LexicographicallyLargest(value %s) = %v, expected %v", xv.Text(16), got, want)
	}
	var bi big.Int
	if xs.ToBigIntRegular(&bi); bi.Cmp(xv) != 0 {
		return fmt.Errorf("ToBigIntRegular(value %s) = %s", xv.Text(16), bi.Text(16))
	}
	reg := xs.ToRegular()
	if hx.FrRaw(&reg).Cmp(xv) != 0 {
		return fmt.Errorf("ToRegular(value %s) has limbs %s", xv.Text(16), hx.FrRaw(&reg).Text(16))
	}
	fm := xs
	fr.VerifFromMontGeneric(&fm)
	if fm != reg {
		return fmt.Errorf("fromMontGeneric differs from FromMont for value %s", xv.Text(16))
	}
	// conversion of integers INTO Montgomery form: any integer (negative, above r) is reduced; the receiver holds an earlier value
	for k, v := range []*big.Int{new(big.Int).Set(xv), new(big.Int).Sub(xv, ref.R), new(big.Int).Add(xv, ref.R), new(big.Int).Neg(xv), new(big.Int).Neg(new(big.Int).Add(xv, ref.R))} {
		z := ys
		vCopy := new(big.Int).Set(v)
		z.SetBigInt(v)
		if v.Cmp(vCopy) != 0 {
			return fmt.Errorf("SetBigInt modified its argument %s", vCopy.Text(16))
		}
		if err := checkResult(fmt.Sprintf("SetBigInt#%d", k), &z, new(big.Int).Mod(v, ref.R), &x, &y); err != nil {
			return err
		}
	}
	var viaString fr.Element
	viaString.SetString(xs.String())
	if viaString != xs {
		return fmt.Errorf("SetString(x.String()) != x for value %s (String() = %q)", xv.Text(16), xs.String())
	}
	a, b := xs, ys
	fr.Butterfly(&a, &b)
	if err := checkResult("Butterfly.a", &a, ref.FrAdd(xv, yv), &x, &y); err != nil {
		return err
	}
	if err := checkResult("Butterfly.b", &b, ref.FrSub(xv, yv), &x, &y); err != nil {
		return err
	}
	a, b = xs, ys
	fr.VerifButterflyGeneric(&a, &b)
	if err := checkResult("butterflyGeneric.a", &a, ref.FrAdd(xv, yv), &x, &y); err != nil {
		return err
	}
	if err := checkResult("butterflyGeneric.b", &b, ref.FrSub(xv, yv), &x, &y); err != nil {
		return err
	}
	if xs != x || ys != y {
		return fmt.Errorf("a comparison or conversion modified its operand")
	}
	return nil
}

func evalSqrtLegendre(x fr.Element) error {
	xv := valueOf(&x)
	xs := x
	wantL := 0
	if xv.Sign() != 0 {
		wantL = big.Jacobi(xv, ref.R)
	}
	if got := xs.Legendre(); got != wantL {
		return fmt.Errorf("Legendre(value %s) = %d, Jacobi symbol %d", xv.Text(16), got, wantL)
	}
	var z fr.Element
	z = hx.FrSetRaw(new(big.Int).Sub(ref.R, big.NewInt(77)))
	res := z.Sqrt(&xs)
	if (res == nil) != (wantL == -1) {
		return fmt.Errorf("Sqrt(value %s): nil=%v but Jacobi symbol %d", xv.Text(16), res == nil, wantL)
	}
	if res != nil {
		if !hx.FrReduced(res) {
			return fmt.Errorf("Sqrt(value %s) is not reduced", xv.Text(16))
		}
		rv := valueOf(res)
		if ref.FrMul(rv, rv).Cmp(xv) != 0 {
			return fmt.Errorf("Sqrt(value %s) = %s whose square is not the operand", xv.Text(16), rv.Text(16))
		}
	}
	if xs != x {
		return fmt.Errorf("Sqrt/Legendre modified the operand")
	}
	return nil
}

func evalBatchInvert(vec []fr.Element) error {
	in := append([]fr.Element(nil), vec...)
	var out []fr.Element
	if perr := hx.Try(func() { out = fr.BatchInvert(in) }); perr != nil {
		return fmt.Errorf("BatchInvert: %w", perr)
	}
	if len(out) != len(vec) {
		return fmt.Errorf("BatchInvert returned %d values for %d inputs", len(out), len(vec))
	}
	for i := range vec {
		if in[i] != vec[i] {
			return fmt.Errorf("BatchInvert modified input %d", i)
		}
		if err := checkResult(fmt.Sprintf("BatchInvert[%d of %d]", i, len(vec)), &out[i], ref.FrInv(valueOf(&vec[i])), &vec[i]); err != nil {
			return err
		}
	}
	return nil
}

func findBin(name string) *binOp {
	for _, ops := range [][]binOp{c15BinCheap, c15BinCostly} {
		for i := range ops {
			if ops[i].name == name {
				return &ops[i]
			}
		}
	}
	return nil
}
func findUn(name string) *unOp {
	for i := range c15Unary {
		if c15Unary[i].name == name {
			return &c15Unary[i]
		}
	}
	return nil
}

func evalC15(c c15Case, rec *hx.Rec) error {
	rec.Eval(1)
	x := rawFromHex(c.X)
	var y fr.Element
	if c.Y != "" {
		y = rawFromHex(c.Y)
	}
	switch {
	case c.Op == "misc":
		return evalMisc(x, y)
	case c.Op == "sqrt":
		return evalSqrtLegendre(x)
	case c.Op == "batchinvert":
		vec := make([]fr.Element, len(c.Vec))
		for i, s := range c.Vec {
			vec[i] = rawFromHex(s)
		}
		return evalBatchInvert(vec)
	case c.Op == "mulByConstant":
		z := x
		fr.VerifMulByConstant(&z, uint8(c.C))
		return checkResult(fmt.Sprintf("mulByConstant(%d)", c.C), &z, ref.FrMul(valueOf(&x), big.NewInt(int64(c.C))), &x)
	case findBin(c.Op) != nil:
		return evalBin(*findBin(c.Op), x, y, c.Alias)
	case findUn(c.Op) != nil:
		return evalUn(*findUn(c.Op), x, c.Alias != 0)
	}
	panic(hx.Inconclusive{Msg: "unknown op " + c.Op})
}

func rawHex(e *fr.Element) string { return hx.FrRaw(e).Text(16) }

func genRawOperand(t *rapid.T, label string) string {
	switch rapid.IntRange(0, 5).Draw(t, label+"_class") {
	case 0:
		return rawHex(&c15Bound[rapid.IntRange(0, len(c15Bound)-1).Draw(t, label+"_b")])
	case 1: // sparse bits
		v := new(big.Int)
		for i := 0; i < rapid.IntRange(0, 4).Draw(t, label+"_nbits"); i++ {
			v.SetBit(v, rapid.IntRange(0, 252).Draw(t, label+"_bit"), 1)
		}
		return v.Text(16)
	case 3: // value-space boundary pattern
		e := toRaw(hx.FrRaw(&c15Bound[rapid.IntRange(0, len(c15Bound)-1).Draw(t, label+"_vb")]))
		return rawHex(&e)
	case 2: // value-space small: raw = k*R mod r
		e := toRaw(big.NewInt(int64(rapid.IntRange(0, 1000).Draw(t, label+"_small"))))
		return rawHex(&e)
	}
	return hx.ExpandFr(rapid.Uint64().Draw(t, label+"_seed"), "c15", 0).Text(16)
}

func genC15(t *rapid.T) c15Case {
	var names []string
	for _, o := range c15BinCheap {
		names = append(names, o.name)
	}
	for _, o := range c15BinCostly {
		names = append(names, o.name)
	}
	for _, o := range c15Unary {
		names = append(names, o.name)
	}
	names = append(names, "misc", "sqrt", "batchinvert", "mulByConstant")
	c := c15Case{Op: rapid.SampledFrom(names).Draw(t, "op"), X: genRawOperand(t, "x"), Y: genRawOperand(t, "y"), Alias: rapid.IntRange(0, 4).Draw(t, "alias")}
	if rapid.IntRange(0, 2).Draw(t, "related") == 0 { // the second operand stands in a relation to the first (in raw limbs)
		x := hx.BigHex(c.X)
		d := new(big.Int).Lsh(big.NewInt(int64(rapid.IntRange(1, 3).Draw(t, "rel_d"))), uint(64*rapid.IntRange(0, 3).Draw(t, "rel_limb")))
		var y *big.Int
		switch rapid.SampledFrom([]string{"same", "neg", "plus", "minus", "double", "half_sum"}).Draw(t, "rel") {
		case "same":
			y = x
		case "neg":
			y = new(big.Int).Sub(ref.R, x)
		case "plus":
			y = new(big.Int).Add(x, d)
		case "minus":
			y = new(big.Int).Sub(x, d)
		case "double":
			y = new(big.Int).Lsh(x, 1)
		default: // x + y = r + d: the sum needs exactly one subtraction of the modulus and lands on a limb boundary
			y = new(big.Int).Add(new(big.Int).Sub(ref.R, x), d)
		}
		c.Y = y.Mod(y, ref.R).Text(16)
	}
	switch c.Op {
	case "batchinvert":
		n := rapid.SampledFrom([]int{0, 1, 2, 3, 8, 255, 256, 257, 511, 512, 513, 1023, 1024, 1025, 1500, 2049, 4097}).Draw(t, "veclen")
		if rapid.Bool().Draw(t, "veclen_any") {
			n = rapid.IntRange(0, 40).Draw(t, "veclen_n")
		}
		zeroMode := rapid.IntRange(0, 3).Draw(t, "zeros")
		for i := 0; i < n; i++ {
			s := genRawOperand(t, "v")
			if zeroMode == 1 && i%3 == 0 || zeroMode == 2 || zeroMode == 3 && (i == 0 || i == n-1) {
				s = "0"
			}
			c.Vec = append(c.Vec, s)
		}
		if n >= 2 && rapid.IntRange(0, 3).Draw(t, "tie") == 0 { // the non-zero entries multiply to exactly 1 (or -1): [.., x, .., 1/prod]
			prod := big.NewInt(1)
			last := -1
			for i, h := range c.Vec {
				raw := hx.BigHex(h)
				raw.Mod(raw, ref.R)
				if raw.Sign() != 0 {
					last = i
				}
			}
			for i, h := range c.Vec {
				if i == last {
					continue
				}
				raw := hx.BigHex(h)
				raw.Mod(raw, ref.R)
				if raw.Sign() != 0 { // value = raw * 2^-256
					prod = ref.FrMul(prod, ref.FrMul(raw, ref.FrInv(bigR256)))
				}
			}
			if last >= 0 {
				want := ref.FrInv(prod)
				if rapid.Bool().Draw(t, "tie_minus") {
					want = ref.FrNeg(want)
				}
				e := toRaw(want)
				c.Vec[last] = rawHex(&e)
			}
		}
	case "mulByConstant":
		c.C = rapid.IntRange(0, 255).Draw(t, "c")
	}
	return c
}

var c15Part = hx.NewPart("C15", "ops", genC15, func(c c15Case, rec *hx.Rec) error {
	rec.Sample(c)
	rec.Label("op=" + c.Op)
	return evalC15(c, rec)
})

func TestC15(t *testing.T) {
	s := hx.Start(t, "C15")
	defer s.Finish()
	B := c15Bound
	nb := len(B)
	// The driver alternates the two build configurations over the shards (shard j runs configuration j%2), so
	// the enumerations are partitioned over the shards OF ONE CONFIGURATION: each configuration covers everything.
	nLocal, local := hx.NShards()/2, hx.Shard()/2
	if hx.NShards() < 2 {
		nLocal, local = 1, 0
	}
	sharded := func(i int) bool { return i%nLocal == local }
	s.Rec.Extra("boundary_elements", fmt.Sprint(nb))
	s.Rec.Extra("adx_supported_"+os.Getenv("VERIF_VARIANT"), fmt.Sprint(fr.VerifSupportAdx()))
	vals := make([]*big.Int, nb)
	for i := range B {
		vals[i] = valueOf(&B[i])
	}
	fail := func(c c15Case, err error) { s.Violation("ops", c, err) }
	complete := true
	evals, nt := 0, 0
	// every boundary element: all unary operations (both aliasing forms), sqrt/Legendre, mulByConstant for every constant
	for i := range B {
		if !sharded(i) || s.Failed() {
			continue
		}
		ok := s.Guard(func() {
			for _, op := range c15Unary {
				for _, al := range []bool{false, true} {
					evals++
					if err := evalUn(op, B[i], al); err != nil {
						fail(c15Case{Op: op.name, X: rawHex(&B[i]), Alias: map[bool]int{false: 0, true: 1}[al]}, err)
						return
					}
				}
			}
			evals++
			if err := evalSqrtLegendre(B[i]); err != nil {
				fail(c15Case{Op: "sqrt", X: rawHex(&B[i])}, err)
				return
			}
			for c := 0; c < 256; c += 1 + 6*(i%2) {
				z := B[i]
				fr.VerifMulByConstant(&z, uint8(c))
				evals++
				if err := checkResult(fmt.Sprintf("mulByConstant(%d)", c), &z, ref.FrMul(vals[i], big.NewInt(int64(c))), &B[i]); err != nil {
					fail(c15Case{Op: "mulByConstant", X: rawHex(&B[i]), C: c}, err)
					return
				}
			}
			nt += len(c15Unary)*2 + 1
		})
		if !ok || s.Failed() {
			complete = false
		}
	}
	// full cross product for the cheap binary operations and the comparisons/conversions (both tiers)
	for i := range B {
		if !sharded(i) || s.Failed() || s.Aborted() {
			continue
		}
		ok := s.Guard(func() {
			for j := range B {
				al := (i + j) % 5
				for _, op := range c15BinCheap {
					evals++
					if err := evalBin(op, B[i], B[j], al); err != nil {
						fail(c15Case{Op: op.name, X: rawHex(&B[i]), Y: rawHex(&B[j]), Alias: al}, err)
						return
					}
				}
				evals++
				if err := evalMisc(B[i], B[j]); err != nil {
					fail(c15Case{Op: "misc", X: rawHex(&B[i]), Y: rawHex(&B[j])}, err)
					return
				}
				nt++
				// costly binary operations: all pairs in the thorough tier, a seed-selected slice in the quick tier
				if hx.Thorough() || (i*31+j*17+hx.Seed())%29 == 0 {
					for _, op := range c15BinCostly {
						evals++
						if err := evalBin(op, B[i], B[j], al); err != nil {
							fail(c15Case{Op: op.name, X: rawHex(&B[i]), Y: rawHex(&B[j]), Alias: al}, err)
							return
						}
					}
				}
			}
		})
		if !ok || s.Failed() {
			complete = false
		}
	}
	// the same limb patterns in VALUE space (elements whose regular, non-Montgomery value is the pattern): the
	// comparison / ordering / conversion operations work on the regular value, so their limb-boundary cases live here
	V := make([]fr.Element, nb)
	for i := range B {
		V[i] = toRaw(hx.FrRaw(&B[i]))
	}
	for i := range V {
		if !sharded(i) || s.Failed() || s.Aborted() {
			continue
		}
		ok := s.Guard(func() {
			for _, op := range c15Unary {
				evals++
				if err := evalUn(op, V[i], i%2 == 0); err != nil {
					fail(c15Case{Op: op.name, X: rawHex(&V[i]), Alias: (i + 1) % 2}, err)
					return
				}
			}
			evals++
			if err := evalSqrtLegendre(V[i]); err != nil {
				fail(c15Case{Op: "sqrt", X: rawHex(&V[i])}, err)
				return
			}
			for j := range V {
				evals++
				if err := evalMisc(V[i], V[j]); err != nil {
					fail(c15Case{Op: "misc", X: rawHex(&V[i]), Y: rawHex(&V[j])}, err)
					return
				}
				nt++
				if (i*13+j*7+hx.Seed())%11 == 0 { // mixed representation-space pairs for the arithmetic
					for _, op := range c15BinCheap {
						evals++
						if err := evalBin(op, V[i], B[j], (i+j)%5); err != nil {
							fail(c15Case{Op: op.name, X: rawHex(&V[i]), Y: rawHex(&B[j]), Alias: (i + j) % 5}, err)
							return
						}
					}
				}
			}
		})
		if !ok || s.Failed() {
			complete = false
		}
	}
	// result-space patterns: operand pairs constructed so that the RESULT of the operation (and hence the un-reduced
	// intermediate result + modulus) is a limb-boundary pattern: y = b*R/x for Mul, y = b - x for Add, y = x - b for Sub
	for i := range B {
		if !sharded(i) || s.Failed() || s.Aborted() {
			continue
		}
		ok := s.Guard(func() {
			bRaw := hx.FrRaw(&B[i])
			for t := 0; t < 6; t++ {
				xr := hx.Expand(uint64(hx.Seed()), "c15res", i*8+t)
				xr.Mod(xr, ref.R)
				if xr.Sign() == 0 {
					xr.SetInt64(3)
				}
				x := hx.FrSetRaw(xr)
				yMul := new(big.Int).Mul(bRaw, bigR256)
				yMul.Mul(yMul, new(big.Int).ModInverse(xr, ref.R)).Mod(yMul, ref.R)
				ys := []fr.Element{hx.FrSetRaw(yMul), hx.FrSetRaw(ref.FrSub(bRaw, xr)), hx.FrSetRaw(ref.FrSub(xr, bRaw))}
				for yi, y := range ys {
					for _, op := range c15BinCheap {
						evals++
						if err := evalBin(op, x, y, (t+yi)%3); err != nil {
							fail(c15Case{Op: op.name, X: rawHex(&x), Y: rawHex(&y), Alias: (t + yi) % 3}, err)
							return
						}
					}
				}
				nt++
			}
		})
		if !ok || s.Failed() {
			complete = false
		}
	}
	// batch inversion over windows of the boundary set with zeros at chosen positions
	for i := 0; i < nb; i += 7 {
		if !sharded(i/7) || s.Failed() || s.Aborted() {
			continue
		}
		n := []int{0, 1, 2, 5, 33, 256, 511, 512, 513, 1024, 2048, 5000}[(i/7)%12]
		vec := make([]fr.Element, n)
		var hexes []string
		for k := range vec {
			vec[k] = B[(i+k*13)%nb]
			if (k+i)%4 == 0 {
				vec[k] = fr.Element{}
			}
			hexes = append(hexes, rawHex(&vec[k]))
		}
		evals++
		var err error
		if s.Guard(func() { err = evalBatchInvert(vec) }) && err != nil {
			fail(c15Case{Op: "batchinvert", Vec: hexes}, err)
		}
	}
	s.Rec.Eval(evals)
	s.Rec.NTEnum(nt)
	s.Rec.LabelN("boundary_pairs_full_cross_product", 0)
	s.Rec.Extra("exhaustive", complete && !s.Failed())
	s.Rec.Extra("exhaustive_subdomain", fmt.Sprintf("in EACH build configuration: full cross product of the %d limb-boundary elements for Add/Sub/Mul (+generic), Butterfly, Cmp, conversions; the same patterns in value space: full cross product for Cmp/Equal/ordering/conversions/Butterfly; every boundary element (both spaces) for all unary operations, Sqrt/Legendre; mulByConstant for all constants; 6 constructed operand pairs per boundary pattern whose Mul / Add / Sub RESULT is that pattern", nb))
	c15Part.Run(s, hx.PerShard(hx.Pick(200000, 20000000)))
	c15Part.RunConcurrent(s, 8, hx.Pick(3000, 40000))
}
