//go:build verif && verif_elem

package props

import (
	"bytes"
	"errors"
	"fmt"
	"io"
	"math/big"
	"strings"
	"sync"
	"testing"

	multiproof "github.com/crate-crypto/go-ipa"
	"github.com/crate-crypto/go-ipa/banderwagon"
	"github.com/crate-crypto/go-ipa/ipa"
	"pgregory.net/rapid"

	"verif/harness/hx"
	"verif/harness/ref"
)

// C10 — proof (de)serialisation is total, canonical and robust to I/O faults.

type c10Case struct {
	Kind      string `json:"kind"` // multi | ipa
	Base      string `json:"base"` // valid | uniform
	Seed      uint64 `json:"seed"`
	Field     int    `json:"field"`            // field to replace (-1 none); points first, the scalar last
	Repl      string `json:"repl,omitempty"`   // replacement class
	Field2    int    `json:"field2,omitempty"` // 1 + index of a SECOND field receiving the same replacement class (0: none)
	LenMode   string `json:"len,omitempty"`    // "", trunc, extend
	LenArg    int    `json:"len_arg,omitempty"`
	Reader    string `json:"reader"` // whole | onebyte | chunks | dataeof | errat
	Chunk     int    `json:"chunk,omitempty"`
	ErrAt     int    `json:"err_at,omitempty"`
	WriteAt   int    `json:"write_fail_at"`        // the j-th Write call of the writer fails (-1: never)
	WriteFull bool   `json:"write_full,omitempty"` // the failing Write reports the full byte count together with the error
}

var (
	c10PoolOnce sync.Once
	c10Enc      [][32]byte // valid compressed encodings
)

func c10Pool() {
	c10PoolOnce.Do(func() {
		p := hx.G.Generator()
		step := hx.G.Mul(hx.G.Generator(), hx.ExpandFr(11, "c10pool", 0))
		for i := 0; i < 96; i++ {
			c10Enc = append(c10Enc, hx.G.Compress(p))
			p = hx.G.Add(p, step)
		}
		c10Enc = append(c10Enc, [32]byte{}) // the identity class
		for i := 0; i < 8; i++ {
			c10Enc = append(c10Enc, hx.G.Compress(hx.G.CRS()[i*31]))
		}
	})
}

func (c c10Case) nPoints() int {
	if c.Kind == "multi" {
		return 17
	}
	return 16
}

var c10PointRepl = []string{"offcurve", "nonsubgroup", "alias_x+p", "p", "2^256-1", "identity", "neg_valid", "p-1", "bitflip"}
var c10ScalarRepl = []string{"r-1", "r", "r+1", "2^256-1", "0", "2r", "r+2^119", "p"}

// bytesOf builds the byte string of a case.
func (c c10Case) bytesOf() []byte {
	c10Pool()
	np := c.nPoints()
	total := 32 * (np + 1)
	var b []byte
	if c.Base == "uniform" {
		b = hx.ExpandBytes(c.Seed, "c10u", total)
	} else {
		for i := 0; i < np; i++ {
			e := c10Enc[int(hx.Expand(c.Seed, "c10pt", i).Uint64()%uint64(len(c10Enc)))]
			b = append(b, e[:]...)
		}
		b = append(b, ref.LE32(hx.ExpandFr(c.Seed, "c10sc", 0))...)
	}
	replace := func(f int, seed uint64) {
		var repl []byte
		if f < np {
			x := new(big.Int).SetBytes(b[32*f : 32*f+32])
			switch c.Repl {
			case "offcurve":
				repl = be32any(findX(seed, false, false))
			case "nonsubgroup":
				repl = be32any(findX(seed, true, false))
			case "alias_x+p":
				repl = be32any(new(big.Int).Add(new(big.Int).Mod(x, ref.P), ref.P))
			case "p":
				repl = be32any(ref.P)
			case "2^256-1":
				repl = bytes.Repeat([]byte{0xff}, 32)
			case "identity":
				repl = make([]byte, 32)
			case "neg_valid":
				repl = be32any(new(big.Int).Mod(new(big.Int).Neg(x), ref.P))
			case "p-1":
				repl = be32any(new(big.Int).Sub(ref.P, big.NewInt(1)))
			default: // bitflip
				repl = append([]byte(nil), b[32*f:32*f+32]...)
				repl[int(seed%32)] ^= 1 << (seed / 32 % 8)
			}
		} else {
			var v *big.Int
			switch c.Repl {
			case "r-1":
				v = rMinus1
			case "r":
				v = ref.R
			case "r+1":
				v = new(big.Int).Add(ref.R, big.NewInt(1))
			case "2^256-1":
				v = new(big.Int).Sub(new(big.Int).Lsh(big.NewInt(1), 256), big.NewInt(1))
			case "0":
				v = new(big.Int)
			case "2r":
				v = new(big.Int).Lsh(ref.R, 1)
			case "r+2^119":
				v = new(big.Int).Add(ref.R, new(big.Int).Lsh(big.NewInt(1), 119))
			default:
				if strings.HasPrefix(c.Repl, "q:") && len(c.Repl) == 6 { // limbs relative to the limbs of r (see qLimbValue)
					v = qLimbValue([]int{int(c.Repl[2] - '0'), int(c.Repl[3] - '0'), int(c.Repl[4] - '0'), int(c.Repl[5] - '0')}, seed)
				} else {
					v = ref.P
				}
			}
			repl = ref.LE32(v)
		}
		copy(b[32*f:], repl)
	}
	if c.Field >= 0 && c.Field <= np {
		replace(c.Field, c.Seed)
	}
	if c.Field2 > 0 && c.Field2-1 <= np && c.Field2-1 != c.Field {
		replace(c.Field2-1, c.Seed+uint64(c.Field2)) // same class, (usually) a different value
	}
	switch c.LenMode {
	case "trunc":
		n := c.LenArg
		if n < 0 {
			n = 0
		}
		if n < len(b) {
			b = b[:n]
		}
	case "extend":
		b = append(b, hx.ExpandBytes(c.Seed+1, "c10ext", c.LenArg)...)
	}
	return b
}

var errInjected = errors.New("injected read error")
var errWrite = errors.New("injected write error")

// planReader is a contract-respecting reader: every call returns n > 0 or an error.
type planReader struct {
	data    []byte
	pos     int
	chunk   int  // max bytes per call
	dataEOF bool // return the final bytes together with io.EOF
	errAt   int  // inject an error once pos reaches errAt (-1: never)
}

func (r *planReader) Read(p []byte) (int, error) {
	if r.errAt >= 0 && r.pos >= r.errAt {
		return 0, errInjected
	}
	if r.pos >= len(r.data) {
		return 0, io.EOF
	}
	n := len(p)
	if r.chunk > 0 && n > r.chunk {
		n = r.chunk
	}
	if n > len(r.data)-r.pos {
		n = len(r.data) - r.pos
	}
	if r.errAt >= 0 && r.pos+n > r.errAt {
		n = r.errAt - r.pos
	}
	copy(p, r.data[r.pos:r.pos+n])
	r.pos += n
	if r.dataEOF && r.pos == len(r.data) {
		return n, io.EOF
	}
	return n, nil
}

type countingReader struct {
	r io.Reader
	n int
}

func (c *countingReader) Read(p []byte) (int, error) {
	n, err := c.r.Read(p)
	c.n += n
	return n, err
}

type failWriter struct {
	buf    bytes.Buffer
	calls  int
	failAt int
	full   bool
}

func (w *failWriter) Write(p []byte) (int, error) {
	if w.calls == w.failAt {
		w.calls++
		if w.full { // allowed by io.Writer: all bytes taken, and an error
			w.buf.Write(p)
			return len(p), errWrite
		}
		return 0, errWrite
	}
	w.calls++
	return w.buf.Write(p)
}

func (c c10Case) reader(b []byte) io.Reader {
	r := &planReader{data: append([]byte(nil), b...), errAt: -1}
	switch c.Reader {
	case "onebyte":
		r.chunk = 1
	case "chunks":
		r.chunk = c.Chunk
		if r.chunk < 1 {
			r.chunk = 1
		}
	case "dataeof":
		r.dataEOF = true
		r.chunk = c.Chunk
	case "errat":
		r.errAt = c.ErrAt
		r.chunk = c.Chunk
	default:
		return bytes.NewReader(b)
	}
	return r
}

// refParse is the reference parser: which fields are invalid.
func refParse(kind string, b []byte) (reasons []string, pts []hx.RPt, scalar *big.Int) {
	np := 16
	if kind == "multi" {
		np = 17
	}
	need := 32 * (np + 1)
	if len(b) < need {
		return []string{"short"}, nil, nil
	}
	if kind == "multi" && len(b) > need {
		reasons = append(reasons, "trailing")
	}
	for i := 0; i < np; i++ {
		p, err := hx.G.DecodeCompressed(b[32*i : 32*i+32])
		if err != nil {
			reasons = append(reasons, fmt.Sprintf("point%d", i))
		}
		pts = append(pts, p)
	}
	scalar = ref.FromLE(b[32*np : 32*np+32])
	if scalar.Cmp(ref.R) >= 0 {
		reasons = append(reasons, "scalar")
	}
	return
}

// c10Raw is the same check on explicit bytes (fuzz inputs and their replay files).
type c10Raw struct {
	Kind   string `json:"kind"`
	Bytes  string `json:"bytes"`
	Reader string `json:"reader"`
	Chunk  int    `json:"chunk,omitempty"`
}

func evalC10Raw(r c10Raw, rec *hx.Rec) error {
	return evalC10Bytes(c10Case{Kind: r.Kind, Reader: r.Reader, Chunk: r.Chunk, Field: -1, WriteAt: 0}, hx.BytesHex(r.Bytes), rec)
}

var c10RawPart = hx.NewPart("C10", "raw", func(t *rapid.T) c10Raw {
	c := genC10(t)
	return c10Raw{Kind: c.Kind, Bytes: hx.HexBytes(c.bytesOf()), Reader: []string{"whole", "dataeof", "onebyte", "chunks"}[c.Chunk%4], Chunk: c.Chunk}
}, evalC10Raw)

// ---- proof OBJECTS in arbitrary representations (as the prover, a batch routine or a caller produces them): Write must emit
// the canonical encodings, and Read(Write(p)) must equal p.

type c10Obj struct {
	Kind   string `json:"kind"`
	Seed   uint64 `json:"seed"`
	Reps   []int  `json:"reps"`             // per point: bit0 rescale, bit1 sign-flip
	Shared bool   `json:"shared,omitempty"` // L and R are the two halves of ONE backing array
}

func genC10Obj(t *rapid.T) c10Obj {
	return c10Obj{Kind: rapid.SampledFrom([]string{"multi", "ipa"}).Draw(t, "kind"), Seed: rapid.Uint64().Draw(t, "seed"),
		Reps: rapid.SliceOfN(rapid.IntRange(0, 3), 17, 17).Draw(t, "reps"), Shared: rapid.Bool().Draw(t, "shared")}
}

func evalC10Obj(c c10Obj, rec *hx.Rec) error {
	rec.Eval(1)
	rec.Sample(c)
	pts := make([]hx.RPt, 17)
	var want []byte
	for i := range pts {
		p := refPointFromSeed(c.Seed + uint64(i))
		if (c.Seed>>8)%5 == 0 && i%4 == 1 {
			p = hx.G.Identity()
		}
		pts[i] = hx.Rep(p, c.Reps[i%len(c.Reps)], c.Seed+uint64(31*i))
		if i > 0 || c.Kind == "multi" {
			enc := hx.G.Compress(p)
			want = append(want, enc[:]...)
		}
	}
	a := hx.ExpandFr(c.Seed, "c10obj", 0)
	want = append(want, ref.LE32(a)...)
	lr := hx.ToImplSlice(pts[1:])
	var L, R []banderwagon.Element
	if c.Shared {
		L, R = lr[:8:8], lr[8:16:16]
	} else {
		L, R = append([]banderwagon.Element(nil), lr[:8]...), append([]banderwagon.Element(nil), lr[8:16]...)
	}
	ip := ipa.IPAProof{L: L, R: R, A_scalar: hx.FrFromBig(a)}
	mp := multiproof.MultiProof{D: hx.ToImpl(pts[0]), IPA: ip}
	var out bytes.Buffer
	var werr error
	if perr := hx.Try(func() {
		if c.Kind == "multi" {
			werr = mp.Write(&out)
		} else {
			werr = ip.Write(&out)
		}
	}); perr != nil || werr != nil {
		return fmt.Errorf("Write of a proof object: %v %v", perr, werr)
	}
	if !bytes.Equal(out.Bytes(), want) {
		return fmt.Errorf("%s.Write of a proof whose points are in non-normalised representations differs from the canonical encodings (first difference at byte %d)", c.Kind, firstDiff(out.Bytes(), want))
	}
	var rerr error
	var eq1, eq2 bool
	var back []banderwagon.Element
	if perr := hx.Try(func() {
		if c.Kind == "multi" {
			var again multiproof.MultiProof
			rerr = again.Read(bytes.NewReader(out.Bytes()))
			eq1, eq2 = again.Equal(mp), mp.Equal(again)
			back = append(append([]banderwagon.Element{again.D}, again.IPA.L...), again.IPA.R...)
		} else {
			var again ipa.IPAProof
			rerr = again.Read(bytes.NewReader(out.Bytes()))
			eq1, eq2 = again.Equal(ip), ip.Equal(again)
			back = append(append([]banderwagon.Element{hx.ToImpl(pts[0])}, again.L...), again.R...)
		}
	}); perr != nil {
		return fmt.Errorf("Read(Write(p)): %w", perr)
	}
	if rerr != nil || !eq1 || !eq2 {
		return fmt.Errorf("Read(Write(p)) != p for a %s proof object in non-normalised representation (err=%v, Equal=%v/%v)", c.Kind, rerr, eq1, eq2)
	}
	if len(back) != 17 {
		return fmt.Errorf("Read(Write(p)) has %d points", len(back)-1)
	}
	for i := range back {
		if g := hx.FromImpl(&back[i]); !hx.G.IsValid(g) || !hx.G.Equal(g, pts[i]) {
			return fmt.Errorf("Read(Write(p)): point %d is not the group element that was written", i)
		}
	}
	rec.NT("obj", fmt.Sprint(c))
	return nil
}

var c10ObjPart = hx.NewPart("C10", "object", genC10Obj, evalC10Obj)

func evalC10(c c10Case, rec *hx.Rec) error {
	rec.Sample(c)
	if c.Seed%4 == 1 {
		runNoise(c.Seed|1, 2, false)
	}
	return evalC10Bytes(c, c.bytesOf(), rec)
}

func evalC10Bytes(c c10Case, b []byte, rec *hx.Rec) error {
	rec.Eval(1)
	orig := append([]byte(nil), b...)
	reasons, pts, scalar := refParse(c.Kind, b)
	np := c.nPoints()
	need := 32 * (np + 1)
	if c.Reader == "errat" {
		limit := need // the multiproof reader probes for EOF after the last field, the IPA reader stops at 544 bytes
		if c.Kind == "multi" {
			limit = need + 1
		}
		if c.ErrAt < limit && c.ErrAt <= len(b) {
			reasons = append(reasons, "read_error")
		}
	}
	wantOK := len(reasons) == 0
	var mp multiproof.MultiProof
	var ip ipa.IPAProof
	if c.Seed%2 == 1 { // the receiver already holds another, full-width proof (a reused object)
		c10Pool()
		other := c10Case{Kind: c.Kind, Base: "valid", Seed: 99, Field: -1}.bytesOf()
		if c.Kind == "multi" {
			_ = mp.Read(bytes.NewReader(other))
		} else {
			_ = ip.Read(bytes.NewReader(other))
		}
		rec.Label("reused_receiver")
	}
	var rerr error
	cr := &countingReader{r: c.reader(b)}
	perr := hx.Try(func() {
		if c.Kind == "multi" {
			rerr = mp.Read(cr)
		} else {
			rerr = ip.Read(cr)
		}
	})
	if perr != nil {
		return fmt.Errorf("%s.Read: %w", c.Kind, perr)
	}
	b = orig
	rec.Label("kind="+c.Kind, "reader="+c.Reader)
	if (rerr == nil) != wantOK {
		return fmt.Errorf("%s.Read of %d bytes through reader %q: accepted=%v (err=%v), reference parser says accepted=%v (reasons %v)", c.Kind, len(b), c.Reader, rerr == nil, rerr, wantOK, reasons)
	}
	if !wantOK {
		rec.Label(fmt.Sprintf("reject:%d_reasons", len(reasons)))
		if len(reasons) == 1 {
			r := reasons[0]
			if len(r) > 5 && r[:5] == "point" {
				r = "point"
			}
			rec.Label("reject_exactly:" + r)
			rec.NT(fmt.Sprint(c))
		}
		return nil
	}
	rec.Label("accept")
	if c.Kind == "ipa" && cr.n != need {
		return fmt.Errorf("IPAProof.Read consumed %d bytes of the stream instead of exactly %d (reader %q, chunk %d, %d bytes available)", cr.n, need, c.Reader, c.Chunk, len(b))
	}
	// decoded fields equal the reference decode
	var L, R = ip.L, ip.R
	A := ip.A_scalar
	if c.Kind == "multi" {
		L, R, A = mp.IPA.L, mp.IPA.R, mp.IPA.A_scalar
		if !hx.G.Equal(hx.FromImpl(&mp.D), pts[0]) {
			return fmt.Errorf("decoded D differs from the reference decode")
		}
		pts = pts[1:]
	}
	if len(L) != 8 || len(R) != 8 {
		return fmt.Errorf("decoded proof has %d L and %d R points", len(L), len(R))
	}
	for i := 0; i < 8; i++ {
		if !hx.G.Equal(hx.FromImpl(&L[i]), pts[i]) || !hx.G.Equal(hx.FromImpl(&R[i]), pts[8+i]) {
			return fmt.Errorf("decoded L/R point %d differs from the reference decode", i)
		}
	}
	if hx.FrToBig(&A).Cmp(scalar) != 0 {
		return fmt.Errorf("decoded scalar differs from the reference decode")
	}
	// Write reproduces the input; Read(Write(p)) equals p
	var out bytes.Buffer
	var werr error
	if perr := hx.Try(func() {
		if c.Kind == "multi" {
			werr = mp.Write(&out)
		} else {
			werr = ip.Write(&out)
		}
	}); perr != nil || werr != nil {
		return fmt.Errorf("Write of an accepted proof failed: %v %v", perr, werr)
	}
	if !bytes.Equal(out.Bytes(), b[:need]) {
		return fmt.Errorf("Write does not reproduce the accepted input: first difference at byte %d", firstDiff(out.Bytes(), b[:need]))
	}
	if c.Kind == "multi" {
		var again multiproof.MultiProof
		if err := again.Read(bytes.NewReader(out.Bytes())); err != nil || !again.Equal(mp) || !mp.Equal(again) {
			return fmt.Errorf("Read(Write(p)) != p (err=%v)", err)
		}
	} else {
		var again ipa.IPAProof
		if err := again.Read(bytes.NewReader(out.Bytes())); err != nil || !again.Equal(ip) || !ip.Equal(again) {
			return fmt.Errorf("Read(Write(p)) != p (err=%v)", err)
		}
	}
	// a writer failing at the j-th Write call makes Write return an error
	if c.WriteAt >= 0 {
		fw := &failWriter{failAt: c.WriteAt % (np + 1), full: c.WriteFull}
		var ferr error
		if perr := hx.Try(func() {
			if c.Kind == "multi" {
				ferr = mp.Write(fw)
			} else {
				ferr = ip.Write(fw)
			}
		}); perr != nil {
			return fmt.Errorf("Write to a failing writer: %w", perr)
		}
		if ferr == nil {
			return fmt.Errorf("%s.Write returned nil although the writer failed at its Write call #%d", c.Kind, fw.failAt)
		}
		rec.Label("write_fault")
		// a later Write to a healthy writer must not be affected by the failed one
		var out2 bytes.Buffer
		var werr2 error
		if perr := hx.Try(func() {
			if c.Kind == "multi" {
				werr2 = mp.Write(&out2)
			} else {
				werr2 = ip.Write(&out2)
			}
		}); perr != nil || werr2 != nil {
			return fmt.Errorf("Write after a failed Write: %v %v", perr, werr2)
		}
		if !bytes.Equal(out2.Bytes(), b[:need]) {
			return fmt.Errorf("%s.Write after a failed Write produced %d bytes that differ from the proof's encoding (first difference at byte %d)", c.Kind, out2.Len(), firstDiff(out2.Bytes(), b[:need]))
		}
	}
	if c.Reader != "whole" || c.WriteAt >= 0 {
		rec.NT(fmt.Sprint(c))
		rec.SampleNT(c)
	}
	return nil
}

func genC10(t *rapid.T) c10Case {
	c := c10Case{
		Kind:    rapid.SampledFrom([]string{"multi", "multi", "ipa"}).Draw(t, "kind"),
		Base:    rapid.SampledFrom([]string{"valid", "valid", "valid", "valid", "valid", "uniform"}).Draw(t, "base"),
		Seed:    rapid.Uint64().Draw(t, "seed"),
		Field:   -1,
		Reader:  rapid.SampledFrom([]string{"whole", "onebyte", "chunks", "dataeof", "dataeof", "errat"}).Draw(t, "reader"),
		WriteAt: -1,
	}
	np := c.nPoints()
	switch rapid.IntRange(0, 5).Draw(t, "mutation") {
	case 0, 1:
		c.Field = rapid.IntRange(0, np).Draw(t, "field")
		if c.Field < np {
			c.Repl = rapid.SampledFrom(c10PointRepl).Draw(t, "repl")
		} else {
			c.Repl = rapid.SampledFrom(c10ScalarRepl).Draw(t, "repl_s")
			if rapid.Bool().Draw(t, "repl_q") {
				c.Repl = fmt.Sprintf("q:%d%d%d%d", rapid.IntRange(0, 4).Draw(t, "q0"), rapid.IntRange(0, 4).Draw(t, "q1"), rapid.IntRange(0, 4).Draw(t, "q2"), rapid.IntRange(0, 2).Draw(t, "q3"))
			}
		}
		if c.Field < np && rapid.IntRange(0, 2).Draw(t, "two_fields") == 0 { // the same defect class in two fields at once
			c.Field2 = 1 + rapid.IntRange(0, np-1).Draw(t, "field2")
		}
	case 2:
		c.LenMode = "trunc"
		if rapid.Bool().Draw(t, "boundary") {
			c.LenArg = 32*rapid.IntRange(0, np+1).Draw(t, "fieldpos") + rapid.IntRange(-1, 1).Draw(t, "delta")
		} else {
			c.LenArg = rapid.IntRange(0, 32*(np+1)).Draw(t, "n")
		}
	case 3:
		c.LenMode = "extend"
		c.LenArg = rapid.SampledFrom([]int{1, 1, 2, 31, 32, 33, 576}).Draw(t, "extra")
	}
	c.Chunk = rapid.SampledFrom([]int{0, 1, 2, 7, 31, 32, 33, 64, 100, 575, 576}).Draw(t, "chunk")
	if c.Reader == "errat" {
		c.ErrAt = rapid.IntRange(0, 32*(np+1)+2).Draw(t, "err_at")
	}
	if rapid.Bool().Draw(t, "write_fault") {
		c.WriteAt = rapid.IntRange(0, np).Draw(t, "write_at")
		c.WriteFull = rapid.Bool().Draw(t, "write_full")
	}
	return c
}

var c10Part = hx.NewPart("C10", "serde", genC10, evalC10)

func TestC10(t *testing.T) {
	s := hx.Start(t, "C10")
	defer s.Finish()
	s.Guard(c10Pool)
	seed := uint64(1000*hx.Seed() + hx.Shard())
	// every field x every replacement class, every write-fault position, an injected read error at EVERY offset of one proof
	for _, kind := range []string{"multi", "ipa"} {
		np := 17
		if kind == "ipa" {
			np = 16
		}
		u := 0
		for f := 0; f <= np; f++ {
			repls := c10PointRepl
			if f == np {
				repls = c10ScalarRepl
			}
			for _, r := range repls {
				u++
				if hx.Sharded(u) {
					c10Part.EvalCase(s, c10Case{Kind: kind, Base: "valid", Seed: seed, Field: f, Repl: r, Reader: []string{"whole", "dataeof", "onebyte"}[u%3], WriteAt: -1})
				}
			}
			if f < np { // the same invalid class in two fields at once (an even number of bad points, both in L, both in R, across)
				for _, g := range []int{(f + 1) % np, (f + 8) % np, (f + 3) % np} {
					for _, r := range []string{"nonsubgroup", "offcurve", "alias_x+p"} {
						u++
						if hx.Sharded(u) {
							c10Part.EvalCase(s, c10Case{Kind: kind, Base: "valid", Seed: seed + uint64(g), Field: f, Field2: 1 + g, Repl: r, Reader: "whole", WriteAt: -1})
						}
					}
				}
			}
			if hx.Sharded(f) {
				c10Part.EvalCase(s, c10Case{Kind: kind, Base: "valid", Seed: seed, Field: -1, Reader: "whole", WriteAt: f})
				c10Part.EvalCase(s, c10Case{Kind: kind, Base: "valid", Seed: seed, Field: -1, Reader: "whole", WriteAt: f, WriteFull: true})
			}
		}
		for q := 0; q < 81; q++ { // the final scalar with every limb one below / equal to / one above the limb of r
			u++
			if hx.Sharded(u) {
				c10Part.EvalCase(s, c10Case{Kind: kind, Base: "valid", Seed: seed, Field: np, Repl: fmt.Sprintf("q:%d%d%d%d", q%3, q/3%3, q/9%3, q/27), Reader: "whole", WriteAt: -1})
			}
		}
		for k := 0; k <= 32*(np+1)+1; k++ {
			if hx.Sharded(k) {
				c10Part.EvalCase(s, c10Case{Kind: kind, Base: "valid", Seed: seed, Field: -1, Reader: "errat", ErrAt: k, Chunk: []int{0, 1, 32, 100}[k%4], WriteAt: -1})
			}
		}
		for _, extra := range []int{1, 2, 32} {
			for _, rd := range []string{"whole", "dataeof", "onebyte", "chunks"} {
				c10Part.EvalCase(s, c10Case{Kind: kind, Base: "valid", Seed: seed, Field: -1, LenMode: "extend", LenArg: extra, Reader: rd, Chunk: 577, WriteAt: -1})
			}
		}
	}
	c10Part.Run(s, hx.PerShard(hx.Pick(64000, 800000)))
	c10RawPart.Run(s, hx.PerShard(hx.Pick(6400, 80000)))
	c10ObjPart.Run(s, hx.PerShard(hx.Pick(6400, 80000)))
	c10Part.RunConcurrent(s, 8, hx.Pick(500, 8000))
}
