//go:build verif && verif_elem

package props

import (
	"crypto/sha256"
	"fmt"
	"math/big"
	"testing"

	"github.com/crate-crypto/go-ipa/banderwagon"
	"github.com/crate-crypto/go-ipa/common"
	"pgregory.net/rapid"

	"verif/harness/hx"
	"verif/harness/ref"
)

// C14 — transcript challenges follow the specified hash chain and bind all messages.

type trOp struct {
	Op    string      `json:"op"`            // sep | msg | scalar | point | challenge
	Label string      `json:"label"`         // hex
	Msg   string      `json:"msg,omitempty"` // hex
	S     *scalarSpec `json:"s,omitempty"`
	P     *elemSpec   `json:"p,omitempty"`
	Reuse bool        `json:"reuse,omitempty"` // append the point through the same variable as the previous point op
}

type c14Case struct {
	Protocol string `json:"protocol"`
	Ops      []trOp `json:"ops"`
	// metamorphic variant: change one thing at position Mut and compare the next challenge
	Mut     int    `json:"mut"`
	MutKind string `json:"mut_kind"` // label | msg | swap | protocol | drop
	Noise   uint64 `json:"noise,omitempty"`
}

func genBytesHex(t *rapid.T, label string, allowEmpty bool) string {
	switch rapid.IntRange(0, 6).Draw(t, label+"_class") {
	case 0:
		if allowEmpty {
			return ""
		}
		return "00"
	case 1:
		return hx.HexBytes([]byte(rapid.StringMatching(`[a-zA-Z ]{1,16}`).Draw(t, label+"_str")))
	case 2:
		n := rapid.SampledFrom([]int{31, 32, 33, 64, 500, 1023, 1024, 1025, 2000, 4096}).Draw(t, label+"_len")
		return hx.HexBytes(hx.ExpandBytes(rapid.Uint64().Draw(t, label+"_seed"), "trbytes", n))
	case 3:
		if rapid.IntRange(0, 5).Draw(t, label+"_huge") == 0 { // rarely: tens of kilobytes pending
			n := rapid.SampledFrom([]int{8192, 17000, 40000}).Draw(t, label+"_hugelen")
			return hx.HexBytes(hx.ExpandBytes(uint64(n), "trhuge", n))
		}
		return hx.HexBytes(make([]byte, rapid.IntRange(1, 40).Draw(t, label+"_zeros")))
	default:
		return hx.HexBytes(hx.ExpandBytes(rapid.Uint64().Draw(t, label+"_seed"), "trbytes", rapid.IntRange(1, 48).Draw(t, label+"_n")))
	}
}

func genC14(t *rapid.T) c14Case {
	c := c14Case{Protocol: rapid.SampledFrom([]string{"", "vt", "simple_protocol", "a much longer protocol label for the transcript"}).Draw(t, "protocol")}
	n := rapid.IntRange(0, 64).Draw(t, "nops")
	if rapid.IntRange(0, 3).Draw(t, "short") == 0 {
		n = rapid.IntRange(0, 6).Draw(t, "nops_short")
	}
	for i := 0; i < n; i++ {
		op := trOp{Op: rapid.SampledFrom([]string{"sep", "msg", "msg", "scalar", "scalar", "point", "point", "challenge", "challenge"}).Draw(t, "op")}
		op.Label = genBytesHex(t, "label", true)
		switch op.Op {
		case "msg":
			op.Msg = genBytesHex(t, "msg", true)
		case "scalar":
			s := genScalar(t, "s", []int{8})
			op.S = &s
		case "point":
			p := genElem(t, "p")
			op.P = &p
			op.Reuse = rapid.Bool().Draw(t, "reuse")
		}
		c.Ops = append(c.Ops, op)
	}
	if n > 0 {
		c.Mut = rapid.IntRange(0, n-1).Draw(t, "mut")
	}
	c.MutKind = rapid.SampledFrom([]string{"label", "msg", "swap", "protocol", "drop"}).Draw(t, "mut_kind")
	c.Noise = noiseSeedFrom(rapid.Uint64().Draw(t, "noise"))
	return c
}

// runBoth executes the history on go-ipa and on the reference transcript; returns all challenges of both.
func runTranscripts(protocol string, ops []trOp, rec *hx.Rec) (impl, want []string, maxPending int, err error) {
	tr := common.NewTranscript(protocol)
	rt := ref.NewTranscript(protocol)
	var slot banderwagon.Element // a reused variable for point appends
	for i, op := range ops {
		label := hx.BytesHex(op.Label)
		var perr error
		switch op.Op {
		case "sep":
			perr = hx.Try(func() { tr.DomainSep(label) })
			rt.DomainSep(label)
		case "msg":
			msg := hx.BytesHex(op.Msg)
			msgCopy := append([]byte(nil), msg...)
			perr = hx.Try(func() { tr.AppendMessage(msg, label) })
			rt.AppendMessage(msgCopy, label)
			for j := range msg { // scratch buffer reused by the caller after the call
				msg[j] = ^msg[j]
			}
		case "scalar":
			v := op.S.value()
			f := hx.FrFromBig(v)
			perr = hx.Try(func() { tr.AppendScalar(&f, label) })
			rt.AppendScalar(v, label)
		case "point":
			rp := op.P.point()
			if op.Reuse {
				slot = hx.ToImpl(rp)
				perr = hx.Try(func() { tr.AppendPoint(&slot, label) })
			} else {
				e := hx.ToImpl(rp)
				perr = hx.Try(func() { tr.AppendPoint(&e, label) })
			}
			ref.AppendPoint(hx.G, rt, rp, label)
		case "challenge":
			var got string
			perr = hx.Try(func() {
				ch := tr.ChallengeScalar(label)
				if !hx.FrReduced(&ch) {
					panic("challenge not reduced")
				}
				got = hx.FrToBig(&ch).Text(16)
			})
			impl = append(impl, got)
			want = append(want, rt.Challenge(label).Text(16))
		}
		if perr != nil {
			return nil, nil, 0, fmt.Errorf("op %d (%s): %w", i, op.Op, perr)
		}
		// the caller reuses its buffers: what was absorbed must be the bytes at call time, not a retained slice
		for j := range label {
			label[j] ^= 0xA5
		}
		if rt.Pending() > maxPending {
			maxPending = rt.Pending()
		}
	}
	// one final challenge so that every history is bound
	fin := tr.ChallengeScalar([]byte("final"))
	impl = append(impl, hx.FrToBig(&fin).Text(16))
	want = append(want, rt.Challenge([]byte("final")).Text(16))
	return
}

func evalC14(c c14Case, rec *hx.Rec) error {
	rec.Eval(1)
	rec.Sample(c)
	if c.Noise%4 == 1 {
		runNoise(c.Noise, 2, false)
	}
	impl, want, maxPending, err := runTranscripts(c.Protocol, c.Ops, rec)
	if err != nil {
		return err
	}
	for i := range want {
		if impl[i] != want[i] {
			return fmt.Errorf("challenge #%d = %s, specification hash chain gives %s (max pending bytes %d)", i, impl[i], want[i], maxPending)
		}
	}
	// identical histories give identical challenges
	impl2, _, _, err := runTranscripts(c.Protocol, c.Ops, rec)
	if err != nil {
		return err
	}
	for i := range impl {
		if impl[i] != impl2[i] {
			return fmt.Errorf("the same history gave two different challenge sequences at #%d", i)
		}
	}
	// a single change changes the final challenge
	if len(c.Ops) > 0 {
		ops := append([]trOp(nil), c.Ops...)
		proto := c.Protocol
		changed := true
		m := c.Mut % len(ops)
		switch c.MutKind {
		case "label":
			ops[m].Label += "5a"
		case "msg":
			if ops[m].Op == "msg" {
				ops[m].Msg += "a5"
			} else {
				changed = false
			}
		case "swap":
			k := (m + 1) % len(ops)
			a, b := ops[m], ops[k]
			if fmt.Sprint(a) == fmt.Sprint(b) || (a.S != nil && b.S != nil && a.Op == b.Op && a.Label == b.Label && a.S.value().Cmp(b.S.value()) == 0) ||
				(a.P != nil && b.P != nil && a.Label == b.Label && hx.G.Equal(a.P.point(), b.P.point())) || (a.Op == "sep" && b.Op == "sep") ||
				a.Op == "sep" || b.Op == "sep" || a.Op == "msg" || b.Op == "msg" {
				changed = false // byte streams may coincide (concatenation is not injective); only swap self-delimiting distinct ops
			} else {
				ops[m], ops[k] = b, a
			}
		case "protocol":
			proto += "!"
		case "drop":
			if ops[m].Op == "sep" && ops[m].Label == "" || ops[m].Op == "msg" && ops[m].Label == "" && ops[m].Msg == "" {
				changed = false
			} else {
				ops = append(ops[:m:m], ops[m+1:]...)
			}
		}
		if changed {
			implM, wantM, _, err := runTranscripts(proto, ops, rec)
			if err != nil {
				return err
			}
			if implM[len(implM)-1] != wantM[len(wantM)-1] {
				return fmt.Errorf("mutated history (%s at %d): final challenge differs from the specification", c.MutKind, m)
			}
			refChanged := wantM[len(wantM)-1] != want[len(want)-1]
			implChanged := implM[len(implM)-1] != impl[len(impl)-1]
			if refChanged && !implChanged {
				return fmt.Errorf("changing %s at op %d does not change the final challenge", c.MutKind, m)
			}
			rec.Label("metamorphic:" + c.MutKind)
		}
	}
	nch := 0
	emptyMsg, nonplain := false, false
	for _, op := range c.Ops {
		if op.Op == "challenge" {
			nch++
		}
		if op.Op == "msg" && op.Msg == "" {
			emptyMsg = true
		}
		if op.P != nil && op.P.Rep != 0 {
			nonplain = true
		}
	}
	if maxPending > 1024 {
		rec.Label("pending>1024B")
	}
	if emptyMsg {
		rec.Label("empty_message")
	}
	if nonplain {
		rec.Label("nonplain_point")
	}
	if nch >= 2 {
		rec.Label("challenges>=2")
	}
	if nch >= 2 || maxPending > 1024 || emptyMsg || nonplain {
		rec.NT(fmt.Sprint(c))
		rec.SampleNT(c)
	}
	return nil
}

var c14Part = hx.NewPart("C14", "chain", genC14, evalC14)

// bandMessage searches a message whose first challenge digest (protocol || label || msg || challenge label) lies in
// [r, 2^253): it needs reduction although its top byte equals the top byte of r.
func bandMessage(protocol string, start uint64) (string, bool) {
	lim := new(big.Int).Lsh(big.NewInt(1), 253)
	for i := uint64(0); i < 400000; i++ {
		msg := []byte(fmt.Sprintf("band-%d-%d", start, i))
		h := sha256.Sum256(append(append(append([]byte(protocol), []byte("m")...), msg...), []byte("c")...))
		v := ref.FromLE(h[:])
		if v.Cmp(ref.R) >= 0 && v.Cmp(lim) < 0 {
			return hx.HexBytes(msg), true
		}
	}
	return "", false
}

func TestC14(t *testing.T) {
	s := hx.Start(t, "C14")
	defer s.Finish()
	if msg, ok := bandMessage("bandproto", uint64(1000*hx.Seed()+hx.Shard())); ok {
		m, c := hx.HexBytes([]byte("m")), hx.HexBytes([]byte("c"))
		one := scalarSpec{Kind: "one"}
		c14Part.EvalCase(s, c14Case{Protocol: "bandproto", Ops: []trOp{{Op: "msg", Label: m, Msg: msg}, {Op: "challenge", Label: c},
			{Op: "challenge", Label: c}, {Op: "scalar", Label: m, S: &one}, {Op: "challenge", Label: c}}, MutKind: "label"})
		s.Rec.Label("forced_digest_in_[r,2^253)")
	}
	{ // a first challenge whose REDUCED value is below 2^224 (found once by a 2^29-hash search): its integer has an odd
		// number of 32-bit words, fewer than four 64-bit ones; the challenge is re-absorbed, so every later one depends on it
		m, c := hx.HexBytes([]byte("m")), hx.HexBytes([]byte("c"))
		two := scalarSpec{Kind: "small", N: 2}
		c14Part.EvalCase(s, c14Case{Protocol: "vt", Ops: []trOp{{Op: "msg", Label: m, Msg: hx.HexBytes([]byte("w224-466220963"))}, {Op: "challenge", Label: c},
			{Op: "challenge", Label: c}, {Op: "scalar", Label: m, S: &two}, {Op: "challenge", Label: c}}, MutKind: "msg"})
		s.Rec.Label("forced_challenge_below_2^224")
	}
	c14Part.Run(s, hx.PerShard(hx.Pick(64000, 4000000)))
	c14Part.RunConcurrent(s, 8, hx.Pick(500, 8000))
}
