//go:build verif && verif_elem

package props

import (
	"bytes"
	"fmt"
	"math/big"
	"testing"

	"github.com/crate-crypto/go-ipa/bandersnatch/fr"
	"github.com/crate-crypto/go-ipa/banderwagon"
	"github.com/crate-crypto/go-ipa/ipa"
	"pgregory.net/rapid"

	"verif/harness/hx"
	"verif/harness/ref"
)

// C05 — Pedersen commitment equals sum v_i*G_i and is linear.

// ---- part 1: enumeration of every digit of chosen windows at chosen basis positions

type c05DigitCase struct {
	Pos    int    `json:"pos"`             // basis position i
	Window int    `json:"window"`          // window index k (of width 16 for i<5, 8 otherwise)
	Digit  int    `json:"digit"`           // window value v
	Carry  bool   `json:"carry"`           // window k-1 set to 2^w-1 so that a carry arrives
	Chain  bool   `json:"chain,omitempty"` // ALL windows below k set to 2^w-1: the carry ripples through every lower window and limb
	Len    int    `json:"len"`             // vector length (>= pos+1); 0 means pos+1
	Note   string `json:"note,omitempty"`
	Raw    string `json:"raw,omitempty"` // explicit scalar (hex); overrides the digit description
}

func winWidth(pos int) int {
	if pos < 5 {
		return 16
	}
	return 8
}

func c05Scalar(c c05DigitCase) *big.Int {
	if c.Raw != "" {
		return hx.BigHex(c.Raw)
	}
	w := winWidth(c.Pos)
	s := new(big.Int).Lsh(big.NewInt(int64(c.Digit)), uint(w*c.Window))
	if c.Chain && c.Window > 0 {
		s.Add(s, new(big.Int).Sub(new(big.Int).Lsh(big.NewInt(1), uint(w*c.Window)), big.NewInt(1)))
	} else if c.Carry && c.Window > 0 {
		m := new(big.Int).Sub(new(big.Int).Lsh(big.NewInt(1), uint(w)), big.NewInt(1))
		s.Add(s, m.Lsh(m, uint(w*(c.Window-1))))
	}
	return s
}

func evalC05Digit(c c05DigitCase, rec *hx.Rec) error {
	s := c05Scalar(c)
	if s.Cmp(ref.R) >= 0 {
		return nil
	}
	n := c.Len
	if n < c.Pos+1 {
		n = c.Pos + 1
	}
	vec := make([]fr.Element, n)
	vec[c.Pos] = hx.FrFromBig(s)
	var got banderwagon.Element
	if e := hx.Try(func() { got = Cfg().Commit(vec) }); e != nil {
		return e
	}
	rec.Eval(1)
	want := hx.G.Mul(hx.G.CRS()[c.Pos], s)
	if !hx.G.EqualProj(hx.FromImpl(&got), want) {
		return fmt.Errorf("Commit of the vector with only v[%d] = %s (window %d digit %d carry-in %v) is not v*G_%d", c.Pos, s.Text(16), c.Window, c.Digit, c.Carry, c.Pos)
	}
	return nil
}

var c05Digit = hx.NewPart("C05", "digit", func(t *rapid.T) c05DigitCase {
	pos := rapid.IntRange(0, 255).Draw(t, "pos")
	w := winWidth(pos)
	return c05DigitCase{Pos: pos, Window: rapid.IntRange(0, 256/w-1).Draw(t, "window"), Digit: rapid.IntRange(1, 1<<w-1).Draw(t, "digit"), Carry: rapid.Bool().Draw(t, "carry")}
}, evalC05Digit)

// walkUnit enumerates every digit of window k at position pos for one carry-in value.
func walkUnit(s *hx.Session, pos, k int, carry, chain bool) {
	if (carry || chain) && k == 0 {
		return
	}
	if chain && k == 1 {
		return // identical to the plain carry-in case
	}
	w := winWidth(pos)
	cfg := Cfg()
	Gi := hx.G.CRS()[pos]
	step := hx.G.Mul(Gi, new(big.Int).Lsh(big.NewInt(1), uint(w*k)))
	base := hx.G.Identity()
	if carry || chain {
		base = hx.G.Mul(Gi, c05Scalar(c05DigitCase{Pos: pos, Window: k, Digit: 0, Carry: carry, Chain: chain}))
	}
	cur := base
	half := 1 << (w - 1)
	vec := make([]fr.Element, pos+1)
	rec := s.Rec
	checks, nt := 0, 0
	for v := 1; v < 1<<w; v++ {
		cur = hx.G.Add(cur, step)
		c := c05DigitCase{Pos: pos, Window: k, Digit: v, Carry: carry, Chain: chain}
		sc := c05Scalar(c)
		if sc.Cmp(ref.R) >= 0 {
			break
		}
		vec[pos] = hx.FrFromBig(sc)
		var got banderwagon.Element
		if e := hx.Try(func() { got = cfg.Commit(vec) }); e != nil {
			s.Violation("digit", c, e)
			return
		}
		checks++
		if v >= half || carry || chain {
			nt++
		}
		ok := hx.G.EqualProj(hx.FromImpl(&got), cur)
		if ok && v%1009 == 0 { // re-derive the walked value by a direct math/big scalar multiplication
			direct := ref.Big.Mul(ref.Big.CRS()[pos], sc)
			if !ref.Big.Equal(direct, ref.Convert(hx.G, ref.Big, cur)) {
				panic(hx.Inconclusive{Msg: "incremental reference walk disagrees with the direct math/big multiplication"})
			}
			rec.Label("bigint_recheck")
		}
		if !ok {
			c.Note = "enumeration"
			s.Violation("digit", c, fmt.Errorf("Commit of the vector with only v[%d] = %s (window %d of width %d, digit %d, carry-in %v) is not v*G_%d",
				pos, sc.Text(16), k, w, v, carry || chain, pos))
			return
		}
	}
	rec.Eval(checks)
	rec.NTEnum(nt)
	rec.LabelN(fmt.Sprintf("digits/w=%d", w), checks)
	if carry {
		rec.LabelN("digits/with_carry_in", checks)
	}
	if chain {
		rec.LabelN("digits/with_carry_chain_from_window_0", checks)
	}
	if k == 256/w-1 {
		rec.LabelN("digits/top_window", checks)
	}
	if (k+1)%(64/w) == 0 {
		rec.LabelN("digits/last_window_of_limb", checks)
	}
}

// walkWrap enumerates the scalars s = 2*d*2^(w*top) - r (0 < s < r) at one basis position: after recoding, the top
// digit is d and the lower windows hold d*2^(w*top) - r, which is congruent to d*2^(w*top) modulo the group order, so the
// running sum equals the table entry that is added last (the addition degenerates into a doubling).
func walkWrap(s *hx.Session, pos int) {
	w := winWidth(pos)
	shift := uint(w * (256/w - 1))
	cfg := Cfg()
	Gi := hx.G.CRS()[pos]
	step := hx.G.Mul(Gi, new(big.Int).Lsh(big.NewInt(2), shift))
	vec := make([]fr.Element, pos+1)
	var cur hx.RPt
	started := false
	checks := 0
	for d := int64(1); d < 1<<uint(w); d++ {
		sc := new(big.Int).Lsh(big.NewInt(2*d), shift)
		sc.Sub(sc, ref.R)
		if sc.Sign() <= 0 {
			continue
		}
		if sc.Cmp(ref.R) >= 0 {
			break
		}
		if !started {
			cur = hx.G.Mul(Gi, sc)
			started = true
		} else {
			cur = hx.G.Add(cur, step)
		}
		vec[pos] = hx.FrFromBig(sc)
		c := c05DigitCase{Pos: pos, Window: 256/w - 1, Digit: int(d), Raw: sc.Text(16), Note: "running sum equals the last addend"}
		var got banderwagon.Element
		if e := hx.Try(func() { got = cfg.Commit(vec) }); e != nil {
			s.Violation("digit", c, e)
			return
		}
		checks++
		if !hx.G.EqualProj(hx.FromImpl(&got), cur) {
			s.Violation("digit", c, fmt.Errorf("Commit of the vector with only v[%d] = 2*%d*2^%d - r is not v*G_%d", pos, d, shift, pos))
			return
		}
	}
	s.Rec.Eval(checks)
	s.Rec.NTEnum(checks)
	s.Rec.LabelN(fmt.Sprintf("digits/wrap_doubling/w=%d", w), checks)
}

// ---- part 2: structured vectors

type c05VecCase struct {
	Len     int          `json:"len"`
	Mode    string       `json:"mode"` // sparse | dense | recipes
	Seed    uint64       `json:"seed"`
	Hot     []int        `json:"hot,omitempty"`
	Scalars []scalarSpec `json:"scalars,omitempty"`
	K       scalarSpec   `json:"k"`     // multiplier for Commit(k*a)
	Upd     int          `json:"upd"`   // updated coefficient
	Delta   scalarSpec   `json:"delta"` // update amount
	Noise   uint64       `json:"noise,omitempty"`
}

func genC05Vec(t *rapid.T) c05VecCase {
	c := c05VecCase{Mode: rapid.SampledFrom([]string{"sparse", "sparse", "dense", "recipes", "recipes", "allsame"}).Draw(t, "mode"), Seed: rapid.Uint64().Draw(t, "seed"),
		Noise: noiseSeedFrom(rapid.Uint64().Draw(t, "noise"))}
	c.Len = rapid.SampledFrom([]int{0, 1, 2, 3, 4, 5, 6, 7, 8, 16, 17, 64, 127, 128, 129, 200, 255, 256, 256, 256}).Draw(t, "len")
	if rapid.IntRange(0, 3).Draw(t, "len_any") == 0 {
		c.Len = rapid.IntRange(0, 256).Draw(t, "len_u")
	}
	widths := []int{8, 16}
	switch c.Mode {
	case "allsame":
		c.Scalars = []scalarSpec{genScalar(t, "same", widths)}
	case "sparse", "recipes":
		if c.Len > 0 {
			k := rapid.IntRange(1, 6).Draw(t, "nhot")
			for j := 0; j < k; j++ {
				c.Hot = append(c.Hot, rapid.IntRange(0, c.Len-1).Draw(t, "hot"))
				c.Scalars = append(c.Scalars, genScalar(t, fmt.Sprintf("s%d", j), widths))
			}
		}
	}
	c.K = genScalar(t, "k", widths)
	if c.Len > 0 {
		c.Upd = rapid.IntRange(0, c.Len-1).Draw(t, "upd")
	}
	c.Delta = genScalar(t, "delta", widths)
	return c
}

func (c c05VecCase) vector() []*big.Int {
	v := make([]*big.Int, c.Len)
	for i := range v {
		if c.Mode == "dense" || c.Mode == "recipes" {
			v[i] = hx.ExpandFr(c.Seed, "vec", i)
		} else {
			v[i] = new(big.Int)
		}
	}
	for j, h := range c.Hot {
		v[h] = c.Scalars[j].value()
	}
	if c.Mode == "allsame" && len(c.Scalars) > 0 { // every coefficient equal
		for i := range v {
			v[i] = c.Scalars[0].value()
		}
	}
	return v
}

func implCommit(v []*big.Int) (hx.RPt, banderwagon.Element, error) {
	var got banderwagon.Element
	f := hx.FrSliceFromBig(v)
	if e := hx.Try(func() { got = Cfg().Commit(f) }); e != nil {
		return hx.RPt{}, got, e
	}
	p := hx.FromImpl(&got)
	if !hx.G.IsValid(p) {
		return p, got, fmt.Errorf("Commit returned an invalid point (off the curve or Z = 0)")
	}
	return p, got, nil
}

func evalC05Vec(c c05VecCase, rec *hx.Rec) error {
	rec.Eval(1)
	rec.Sample(c)
	rec.Label("vec/mode="+c.Mode, "vec/len="+lenBucket(c.Len))
	for _, s := range c.Scalars {
		rec.Label("vec/scalar=" + s.label())
	}
	runNoise(c.Noise, 3, true)
	a := c.vector()
	pa, ea, err := implCommit(a)
	if err != nil {
		return err
	}
	want := ref.Commit(hx.G, a)
	if !hx.G.Equal(pa, want) {
		return fmt.Errorf("Commit(v) != sum v_i*G_i (len=%d mode=%s)", c.Len, c.Mode)
	}
	gb, wb := ea.Bytes(), hx.G.Compress(want)
	if !bytes.Equal(gb[:], wb[:]) {
		return fmt.Errorf("Commit(v).Bytes() differs from the reference compression")
	}
	// agreement with the generic MSM over the published SRS
	var ms banderwagon.Element
	var merr error
	if e := hx.Try(func() { ms, merr = ipa.MultiScalar(Cfg().SRS[:c.Len], hx.FrSliceFromBig(a)) }); e != nil || merr != nil {
		return fmt.Errorf("MultiScalar: %v %v", e, merr)
	}
	if !hx.G.Equal(hx.FromImpl(&ms), want) {
		return fmt.Errorf("ipa.MultiScalar(SRS[:%d], v) != sum v_i*G_i", c.Len)
	}
	// linearity: Commit(a+b) = Commit(a)+Commit(b), Commit(k*a) = k*Commit(a), coefficient update
	b := make([]*big.Int, c.Len)
	sum := make([]*big.Int, c.Len)
	ka := make([]*big.Int, c.Len)
	k := c.K.value()
	for i := range b {
		b[i] = hx.ExpandFr(c.Seed+1, "vecb", i)
		if i%3 == 0 {
			b[i] = ref.FrNeg(a[i]) // cancellations
		}
		sum[i] = ref.FrAdd(a[i], b[i])
		ka[i] = ref.FrMul(k, a[i])
	}
	pb, _, err := implCommit(b)
	if err != nil {
		return err
	}
	ps, _, err := implCommit(sum)
	if err != nil {
		return err
	}
	if !hx.G.Equal(ps, hx.G.Add(pa, pb)) {
		return fmt.Errorf("Commit(a+b) != Commit(a)+Commit(b) (len=%d)", c.Len)
	}
	pk, _, err := implCommit(ka)
	if err != nil {
		return err
	}
	if !hx.G.Equal(pk, hx.G.Mul(pa, k)) {
		return fmt.Errorf("Commit(k*a) != k*Commit(a) (len=%d, k=%s)", c.Len, k.Text(16))
	}
	if c.Len > 0 {
		d := c.Delta.value()
		upd := append([]*big.Int(nil), a...)
		upd[c.Upd] = ref.FrAdd(a[c.Upd], d)
		pu, _, err := implCommit(upd)
		if err != nil {
			return err
		}
		if !hx.G.Equal(pu, hx.G.Add(pa, hx.G.Mul(hx.G.CRS()[c.Upd], d))) {
			return fmt.Errorf("single-coefficient update at %d by %s != adding delta*G_i", c.Upd, d.Text(16))
		}
	}
	if c.Len != 256 || len(c.Hot) > 0 {
		rec.NT(fmt.Sprint(c))
		rec.SampleNT(c)
	}
	return nil
}

func lenBucket(n int) string {
	switch {
	case n == 0:
		return "0"
	case n <= 5:
		return "1..5"
	case n < 256:
		return "6..255"
	}
	return "256"
}

var c05Vec = hx.NewPart("C05", "vector", genC05Vec, evalC05Vec)

func TestC05(t *testing.T) {
	s := hx.Start(t, "C05")
	defer s.Finish()
	if !s.Guard(func() { Cfg() }) {
		return
	}
	// the published SRS must be the specification's CRS
	s.Guard(func() {
		for i := range Cfg().SRS {
			if !hx.G.Equal(hx.FromImpl(&Cfg().SRS[i]), hx.G.CRS()[i]) {
				s.Violation("digit", c05DigitCase{Pos: i, Note: "SRS"}, fmt.Errorf("SRS[%d] is not the %d-th CRS point of the specification", i, i))
				return
			}
		}
	})
	// enumeration units (pos, window); quick: a seed-selected subset, thorough: all of them
	type unit struct{ pos, k int }
	var units []unit
	seed := uint64(hx.Seed())
	for pos := 0; pos < 256; pos++ {
		w := winWidth(pos)
		nwin := 256 / w
		for k := 0; k < nwin; k++ {
			keep := true // [as built] the full enumeration costs ~5 s on 16 cores, so both tiers enumerate every unit
			if !keep {
				if pos < 5 { // three windows per 16-bit point: the top one, one last-of-limb, one seed-selected
					sel := int(hx.Expand(seed, "c05sel16", pos).Uint64() % uint64(nwin))
					keep = k == nwin-1 || k == 3+4*int((seed+uint64(pos))%3) || k == sel
				} else { // 48 seed-selected 8-bit points, all their windows
					keep = hx.Expand(seed, "c05sel8", pos).Uint64()%251 < 48
				}
			}
			if keep {
				units = append(units, unit{pos, k})
			}
		}
	}
	complete := true
	for u, un := range units {
		if !hx.Sharded(u) {
			continue
		}
		for mode := 0; mode < 3; mode++ { // no carry-in | carry from the window below | carry chain from window 0
			if s.Failed() || s.Aborted() {
				complete = false
				break
			}
			un, mode := un, mode
			if !s.Guard(func() { walkUnit(s, un.pos, un.k, mode == 1, mode == 2) }) {
				complete = false
			}
		}
	}
	for i, pos := range []int{0, 1, 2, 3, 4, 5, 6, 100, 255} {
		if hx.Sharded(i) && !s.Failed() && !s.Aborted() {
			pos := pos
			s.Guard(func() { walkWrap(s, pos) })
		}
	}
	s.Rec.Extra("digit_units_enumerated", len(units))
	s.Rec.Extra("exhaustive", complete && !s.Failed())
	s.Rec.Extra("exhaustive_subdomain", "every (basis position, window, digit 1..2^w-1, carry-in mode {none, from the window below, chain of 2^w-1 windows from window 0}) single-coefficient vector with scalar < r")
	c05Digit.Run(s, 0) // corpus replay only
	c05Vec.Run(s, hx.PerShard(hx.Pick(960, 160000)))
}
