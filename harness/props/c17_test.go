//go:build verif

package props

import (
	"fmt"
	"math/big"
	"runtime"
	"sync"
	"testing"

	gfr "github.com/consensys/gnark-crypto/ecc/bls12-381/fr"
	"github.com/crate-crypto/go-ipa/bandersnatch"
	"github.com/crate-crypto/go-ipa/bandersnatch/fp"
	"pgregory.net/rapid"

	"verif/harness/hx"
	"verif/harness/ref"
)

// C17 — base-field square root and point recovery from x are exact.

var (
	// the published primitive 2^32-th root of unity of the BLS12-381 scalar field (public data; checked below)
	dyadicRoot = func() *big.Int {
		v, _ := new(big.Int).SetString("10238227357739495823651030575849232062558860180284477541189508159991286009131", 10)
		return v
	}()
	two32    = new(big.Int).Lsh(big.NewInt(1), 32)
	oddPartQ = new(big.Int).Rsh(new(big.Int).Sub(ref.P, big.NewInt(1)), 32) // (p-1)/2^32, odd
	qInv32   = new(big.Int).ModInverse(new(big.Int).Mod(new(big.Int).Rsh(new(big.Int).Sub(ref.P, big.NewInt(1)), 32), new(big.Int).Lsh(big.NewInt(1), 32)), new(big.Int).Lsh(big.NewInt(1), 32))
)

type c17Case struct {
	Mode string `json:"mode"`           // sqrt | point
	Kind string `json:"kind"`           // dyadic | const | uniform | square | nonsquare | rootofunity | encoding
	E    uint32 `json:"e,omitempty"`    // structured dlog in the 2^32 subgroup (dyadic kind)
	Seed uint64 `json:"seed,omitempty"` // odd-order component / uniform value
	Val  string `json:"val,omitempty"`  // hex constant
	Big  bool   `json:"largest,omitempty"`
}

// value builds the field element of a case on the reference side.
func (c c17Case) value() *big.Int {
	switch c.Kind {
	case "dyadic":
		// v = g^e * u with u of odd order; e chosen so that the 2-adic part of v^Q has the structured dlog E
		e := new(big.Int).Mul(big.NewInt(int64(c.E)), qInv32)
		e.Mod(e, two32)
		v := new(big.Int).Exp(dyadicRoot, e, ref.P)
		w := hx.Expand(c.Seed, "c17u", 0)
		w.Mod(w, ref.P)
		if w.Sign() == 0 {
			w.SetInt64(3)
		}
		u := new(big.Int).Exp(w, two32, ref.P)
		return v.Mul(v, u).Mod(v, ref.P)
	case "rootofunity":
		k := uint(c.E % 33)
		return new(big.Int).Exp(dyadicRoot, new(big.Int).Lsh(big.NewInt(1), 32-k), ref.P) // a primitive 2^k-th root of unity
	case "const":
		v := hx.BigHex(c.Val)
		return v.Mod(v, ref.P)
	case "montraw": // the INTERNAL (Montgomery) limbs are the pattern Val: value = Val * 2^-256 mod p
		v := hx.BigHex(c.Val)
		v.Mod(v, ref.P)
		v.Mul(v, rInvP)
		return v.Mod(v, ref.P)
	case "square":
		w := hx.Expand(c.Seed, "c17sq", 0)
		return w.Mul(w, w).Mod(w, ref.P)
	case "nonsquare":
		w := hx.Expand(c.Seed, "c17nsq", 0)
		w.Mul(w, w).Mul(w, big.NewInt(5)).Mod(w, ref.P) // 5 is a non-residue mod p (checked in TestC17)
		return w
	case "encoding":
		p := refPointLite(c.Seed)
		return p
	case "y_near_half": // an abscissa whose two ordinates lie next to p/2 (they share their upper limbs)
		for k := int64(c.E % 1000); k < int64(c.E%1000)+4000; k++ {
			y := new(big.Int).Add(halfPc17, big.NewInt(1+k)) // (p-1)/2 + 1 + k
			if c.Seed%2 == 1 {
				y.Add(y, new(big.Int).Lsh(big.NewInt(int64(1+c.Seed%1000)), uint(64*(1+c.Seed/2%2))))
			}
			y2 := new(big.Int).Mul(y, y)
			num := new(big.Int).Sub(big.NewInt(1), y2)
			den := new(big.Int).Sub(ref.CurveA, new(big.Int).Mul(ref.CurveD, y2))
			den.Mod(den, ref.P)
			if den.Sign() == 0 {
				continue
			}
			x2 := num.Mul(num, new(big.Int).ModInverse(den, ref.P))
			x2.Mod(x2, ref.P)
			if x := new(big.Int).ModSqrt(x2, ref.P); x != nil {
				return x
			}
		}
		return big.NewInt(0)
	}
	v := hx.Expand(c.Seed, "c17v", 0)
	return v.Mod(v, ref.P)
}

// refPointLite returns the x coordinate of a valid subgroup point (k*G), without the elem hook.
func refPointLite(seed uint64) *big.Int {
	x, _ := ref.Fast.Affine(ref.Fast.Mul(ref.Fast.Generator(), hx.ExpandFr(seed, "c17pt", 0)))
	return x
}

var rInvP = new(big.Int).ModInverse(new(big.Int).Lsh(big.NewInt(1), 256), ref.P)

// internal-representation patterns: small words and limb-aligned values
func montRawPatterns() []*big.Int {
	var out []*big.Int
	for _, k := range []int64{1, 2, 3, 4, 5, 255, 256, 65535} {
		out = append(out, big.NewInt(k))
	}
	m64 := new(big.Int).SetUint64(^uint64(0))
	out = append(out, m64, new(big.Int).Lsh(big.NewInt(1), 63))
	for limb := uint(1); limb < 4; limb++ {
		out = append(out, new(big.Int).Lsh(big.NewInt(1), 64*limb), new(big.Int).Lsh(m64, 64*limb),
			new(big.Int).Add(new(big.Int).Lsh(big.NewInt(1), 64*limb), big.NewInt(1)))
	}
	return out
}

var halfPc17 = new(big.Int).Rsh(new(big.Int).Sub(ref.P, big.NewInt(1)), 1)

func evalC17(c c17Case, rec *hx.Rec) error {
	rec.Eval(1)
	v := c.value()
	var fe gfr.Element
	fe.SetBigInt(v)
	feCopy := fe
	if c.Mode == "sqrt" {
		var root *fp.Element
		if perr := hx.Try(func() { root = fp.SqrtPrecomp(&fe) }); perr != nil {
			return fmt.Errorf("SqrtPrecomp(%s): %w", v.Text(16), perr)
		}
		if fe != feCopy {
			return fmt.Errorf("SqrtPrecomp modified its input %s", v.Text(16))
		}
		residue := v.Sign() == 0 || big.Jacobi(v, ref.P) == 1
		if residue != (root != nil) {
			return fmt.Errorf("SqrtPrecomp(%s): returned nil=%v but the value is a quadratic residue=%v (case %+v)", v.Text(16), root == nil, residue, c)
		}
		if root != nil {
			var rb big.Int
			root.BigInt(&rb)
			sq := new(big.Int).Mul(&rb, &rb)
			if sq.Mod(sq, ref.P).Cmp(v) != 0 {
				return fmt.Errorf("SqrtPrecomp(%s) = %s whose square is %s (case %+v)", v.Text(16), rb.Text(16), sq.Text(16), c)
			}
			rec.Label("residue")
			// the returned root belongs to the caller: it is overwritten, and the same question is asked again
			root.Add(root, root).SetOne()
			var again *fp.Element
			if perr := hx.Try(func() { again = fp.SqrtPrecomp(&fe) }); perr != nil {
				return fmt.Errorf("SqrtPrecomp(%s), second call: %w", v.Text(16), perr)
			}
			if again == nil {
				return fmt.Errorf("SqrtPrecomp(%s) returned nil on the second call", v.Text(16))
			}
			again.BigInt(&rb)
			if sq2 := new(big.Int).Mul(&rb, &rb); sq2.Mod(sq2, ref.P).Cmp(v) != 0 {
				return fmt.Errorf("SqrtPrecomp(%s), asked again after the caller overwrote the first result, returns %s whose square is %s", v.Text(16), rb.Text(16), sq2.Text(16))
			}
		} else {
			rec.Label("nonresidue")
		}
	} else {
		var pt *bandersnatch.PointAffine
		arg := &fe
		if c.Seed%2 == 0 { // the caller reuses one variable for successive abscissas: first another one, then this one
			var shared gfr.Element
			shared.SetBigInt(refPointLite(c.Seed + 1))
			_ = hx.Try(func() { _ = bandersnatch.GetPointFromX(&shared, c.Big) })
			shared = fe
			arg = &shared
		}
		if perr := hx.Try(func() { pt = bandersnatch.GetPointFromX(arg, c.Big) }); perr != nil {
			return fmt.Errorf("GetPointFromX(%s): %w", v.Text(16), perr)
		}
		want := ref.YFromX(v) // larger root or nil
		if (want == nil) != (pt == nil) {
			return fmt.Errorf("GetPointFromX(%s, %v): nil=%v but a curve point with this x exists=%v", v.Text(16), c.Big, pt == nil, want != nil)
		}
		if pt != nil {
			if !c.Big {
				want = new(big.Int).Mod(new(big.Int).Neg(want), ref.P)
			}
			var gx, gy big.Int
			pt.X.BigInt(&gx)
			pt.Y.BigInt(&gy)
			if gx.Cmp(v) != 0 || gy.Cmp(want) != 0 {
				return fmt.Errorf("GetPointFromX(%s, largest=%v) = (%s, %s), expected y = %s", v.Text(16), c.Big, gx.Text(16), gy.Text(16), want.Text(16))
			}
			if !ref.Fast.IsValid(ref.Fast.FromAffine(&gx, &gy)) {
				return fmt.Errorf("GetPointFromX(%s) returned a point off the curve", v.Text(16))
			}
			if (gy.Cmp(halfPc17) > 0) != c.Big && gy.Sign() != 0 {
				return fmt.Errorf("GetPointFromX(%s, largest=%v) returned the wrong root", v.Text(16), c.Big)
			}
			rec.Label("point_found")
		} else {
			rec.Label("no_point")
		}
	}
	rec.Label("mode="+c.Mode, "kind="+c.Kind)
	if c.Kind == "dyadic" && c.E != 0 || c.Kind == "rootofunity" {
		rec.NT(fmt.Sprint(c))
		rec.SampleNT(c)
	} else {
		rec.Sample(c)
	}
	return nil
}

var c17Consts = []string{"0", "1", "2", "3", "4", "5"}

func genC17(t *rapid.T) c17Case {
	c := c17Case{Mode: rapid.SampledFrom([]string{"sqrt", "sqrt", "point"}).Draw(t, "mode"), Seed: rapid.Uint64().Draw(t, "seed"), Big: rapid.Bool().Draw(t, "largest")}
	c.Kind = rapid.SampledFrom([]string{"dyadic", "dyadic", "dyadic", "const", "uniform", "square", "nonsquare", "rootofunity", "encoding", "y_near_half", "montraw"}).Draw(t, "kind")
	if c.Kind == "y_near_half" {
		c.Mode = "point"
		c.E = uint32(rapid.IntRange(0, 1<<20).Draw(t, "k"))
	}
	switch c.Kind {
	case "dyadic":
		var e uint32
		for b := 0; b < 4; b++ {
			var blk uint32
			switch rapid.IntRange(0, 3).Draw(t, fmt.Sprintf("blk%d_class", b)) {
			case 0:
				blk = 0
			case 1:
				blk = 0xff
			default:
				blk = uint32(rapid.IntRange(0, 255).Draw(t, fmt.Sprintf("blk%d", b)))
			}
			e |= blk << (8 * b)
		}
		c.E = e
	case "rootofunity":
		c.E = uint32(rapid.IntRange(0, 32).Draw(t, "k"))
	case "montraw":
		pats := montRawPatterns()
		if rapid.Bool().Draw(t, "raw_small") {
			c.Val = hx.HexBig(big.NewInt(int64(rapid.IntRange(0, 100000).Draw(t, "raw_int"))))
		} else {
			c.Val = hx.HexBig(pats[rapid.IntRange(0, len(pats)-1).Draw(t, "raw_pat")])
		}
	case "const":
		switch rapid.IntRange(0, 3).Draw(t, "const_class") {
		case 0:
			c.Val = rapid.SampledFrom(c17Consts).Draw(t, "small")
		case 1:
			c.Val = hx.HexBig(new(big.Int).Sub(ref.P, big.NewInt(int64(rapid.IntRange(1, 5).Draw(t, "neg")))))
		case 2:
			c.Val = hx.HexBig(new(big.Int).Lsh(big.NewInt(1), uint(rapid.IntRange(1, 254).Draw(t, "pow2"))))
		default:
			c.Val = hx.HexBig(big.NewInt(int64(rapid.IntRange(0, 100000).Draw(t, "int"))))
		}
	}
	return c
}

var c17Part = hx.NewPart("C17", "sqrt", genC17, evalC17)

// c17FirstUse: the very first square roots of the process are taken concurrently (tables that are built lazily
// must be complete before any caller uses them). Run before anything else in the process touches the routine.
func c17FirstUse(s *hx.Session) {
	var wg sync.WaitGroup
	type res struct {
		v    *big.Int
		root *fp.Element
	}
	out := make([]res, 16)
	start := make(chan struct{})
	for g := 0; g < 16; g++ {
		wg.Add(1)
		go func(g int) {
			defer wg.Done()
			w := big.NewInt(int64(1000003*(g+1) + 7*hx.Shard()))
			v := new(big.Int).Mul(w, w) // a known square
			var fe gfr.Element
			fe.SetBigInt(v)
			<-start
			for i := 0; i < g%4; i++ {
				runtime.Gosched()
			}
			out[g] = res{v, fp.SqrtPrecomp(&fe)}
		}(g)
	}
	close(start)
	wg.Wait()
	s.Rec.Eval(16)
	for g, r := range out {
		ok := r.root != nil
		if ok {
			var rb big.Int
			r.root.BigInt(&rb)
			sq := new(big.Int).Mul(&rb, &rb)
			ok = sq.Mod(sq, ref.P).Cmp(new(big.Int).Mod(r.v, ref.P)) == 0
		}
		if !ok {
			s.Violation("sqrt", c17Case{Mode: "sqrt", Kind: "const", Val: hx.HexBig(r.v)}, fmt.Errorf("concurrent first use: SqrtPrecomp(%s) (a square) returned a wrong root or nil in goroutine %d", r.v.Text(16), g))
			return
		}
	}
	s.Rec.Label("concurrent_first_use_ok")
}

func TestC17(t *testing.T) {
	s := hx.Start(t, "C17")
	defer s.Finish()
	s.Guard(func() { c17FirstUse(s) })
	// reference-side sanity of the constants used by the generator
	s.Guard(func() {
		if new(big.Int).Exp(dyadicRoot, new(big.Int).Lsh(big.NewInt(1), 31), ref.P).Cmp(new(big.Int).Sub(ref.P, big.NewInt(1))) != 0 {
			panic(hx.Inconclusive{Msg: "the dyadic root constant is not a primitive 2^32-th root of unity"})
		}
		if big.Jacobi(big.NewInt(5), ref.P) != -1 {
			panic(hx.Inconclusive{Msg: "5 is expected to be a non-residue"})
		}
	})
	// complete enumeration of the 4 x 256 block values, other blocks in {0, 0xFF, seed-dependent}, for sqrt and point recovery
	fill := []uint32{0x00000000, 0xffffffff, uint32(hx.Expand(uint64(hx.Seed()), "c17fill", hx.Shard()).Uint64())}
	u := 0
	complete := true
	for b := 0; b < 4 && complete; b++ {
		for beta := 0; beta < 256 && complete; beta++ {
			for fi, f := range fill {
				u++
				if !hx.Sharded(u) {
					continue
				}
				e := (f &^ (0xff << (8 * b))) | uint32(beta)<<(8*b)
				for _, mode := range []string{"sqrt", "point"} {
					c17Part.EvalCase(s, c17Case{Mode: mode, Kind: "dyadic", E: e, Seed: uint64(1000*hx.Seed() + 3*u + fi), Big: beta%2 == 0})
				}
				if s.Failed() || s.Aborted() {
					complete = false
				}
			}
		}
	}
	for k := 0; k < 12; k++ { // abscissas whose ordinates are the nearest ones to p/2
		for _, lg := range []bool{true, false} {
			c17Part.EvalCase(s, c17Case{Mode: "point", Kind: "y_near_half", E: uint32(97*k + 7*hx.Shard()), Seed: uint64(k % 3), Big: lg})
		}
	}
	for k := 0; k <= 32; k++ {
		c17Part.EvalCase(s, c17Case{Mode: "sqrt", Kind: "rootofunity", E: uint32(k)})
		c17Part.EvalCase(s, c17Case{Mode: "point", Kind: "rootofunity", E: uint32(k), Big: k%2 == 0})
	}
	for _, v := range []string{"0", "1", hx.HexBig(new(big.Int).Sub(ref.P, big.NewInt(1)))} {
		for _, mode := range []string{"sqrt", "point"} {
			for _, lg := range []bool{true, false} {
				c17Part.EvalCase(s, c17Case{Mode: mode, Kind: "const", Val: v, Big: lg})
			}
		}
	}
	for i, pat := range montRawPatterns() { // values whose internal limbs are small words / limb-aligned
		if hx.Sharded(i) {
			for _, mode := range []string{"sqrt", "point"} {
				c17Part.EvalCase(s, c17Case{Mode: mode, Kind: "montraw", Val: hx.HexBig(pat), Big: i%2 == 0})
			}
		}
	}
	s.Rec.Extra("exhaustive", complete)
	s.Rec.Extra("exhaustive_subdomain", "every 8-bit block value (4 x 256) of the discrete log in the 2^32 subgroup with the other blocks 0 / 0xFF / seed-dependent; all 2^k-th roots of unity k=0..32; 0, 1, p-1 — for both SqrtPrecomp and GetPointFromX")
	c17Part.Run(s, hx.PerShard(hx.Pick(320000, 20000000)))
	c17Part.RunConcurrent(s, 8, hx.Pick(1500, 20000))
}
