//go:build verif && verif_elem

package props

import (
	"fmt"
	"math/big"
	"runtime"
	"testing"

	"github.com/crate-crypto/go-ipa/bandersnatch/fr"
	"github.com/crate-crypto/go-ipa/banderwagon"
	"pgregory.net/rapid"

	"verif/harness/hx"
)

// C19 — batch helpers and the uncompressed form agree with the single-element operations.

type c19Case struct {
	H       history `json:"h"`
	List    []int   `json:"list"`     // pool indices; equal indices share one pointer
	Bad     int     `json:"bad"`      // position of an un-normalisable element for the error path (-1: none)
	BadKind int     `json:"bad_kind"` // 0: zero value (0,0,0), 1: valid X,Y with Z = 0
	Pattern string  `json:"pattern"`
	Tie     string  `json:"tie,omitempty"` // "Z" / "Y": representations chosen so that the product of that coordinate over the list is exactly 1; "Zm": -1
}

func genC19(t *rapid.T) c19Case {
	c := c19Case{H: genHistory(t, 20), Bad: -1}
	w := runtime.NumCPU()
	n := rapid.SampledFrom([]int{0, 1, 2, 3, w - 1, w, w + 1, 2*w + 1, 63, 64, 65, 255, 256, 257, 300, 1023, 1024, 1025, 4097}).Draw(t, "len")
	if n < 0 {
		n = 0
	}
	if rapid.Bool().Draw(t, "len_any") {
		n = rapid.IntRange(0, 60).Draw(t, "len_n")
	}
	c.Pattern = rapid.SampledFrom([]string{"distinct", "same", "blocks", "random", "random", "interleaved"}).Draw(t, "pattern")
	base := rapid.IntRange(0, 500).Draw(t, "base")
	for i := 0; i < n; i++ {
		switch c.Pattern {
		case "distinct":
			c.List = append(c.List, 1000+i) // beyond the pool: fresh copies of pool slot (i mod pool)
		case "same":
			c.List = append(c.List, base)
		case "blocks":
			c.List = append(c.List, base+i/3)
		case "interleaved":
			c.List = append(c.List, base+i%2)
		default:
			c.List = append(c.List, rapid.IntRange(0, 40).Draw(t, "idx"))
		}
	}
	c.Tie = rapid.SampledFrom([]string{"", "", "", "Z", "Y", "Zm"}).Draw(t, "tie")
	if n > 0 && rapid.IntRange(0, 2).Draw(t, "with_bad") == 0 {
		c.Bad = rapid.IntRange(0, n-1).Draw(t, "bad")
		c.BadKind = rapid.IntRange(0, 1).Draw(t, "bad_kind")
	}
	return c
}

func evalC19(c c19Case, rec *hx.Rec) error {
	rec.Eval(1)
	rec.Sample(c)
	pool, err := runPool(c.H, rec)
	if err != nil {
		return err
	}
	np := len(pool)
	// materialise the list: one private copy per distinct index, shared by every position using that index
	objs := map[int]*banderwagon.Element{}
	list := make([]*banderwagon.Element, len(c.List))
	for i, idx := range c.List {
		if _, ok := objs[idx]; !ok {
			e := *pool[idx%np]
			objs[idx] = &e
		}
		list[i] = objs[idx]
	}
	if c.Tie != "" {
		var target hx.FE
		target.SetOne()
		if c.Tie == "Zm" {
			target.Neg(&target)
		}
		if hx.TieProduct(list, c.Tie[:1], target) {
			rec.Label("tie:" + c.Tie)
		}
	}
	before := make([]hx.RPt, len(list))
	repeated, nonnorm := false, false
	seen := map[*banderwagon.Element]bool{}
	for i, e := range list {
		before[i] = hx.FromImpl(e)
		if seen[e] {
			repeated = true
		}
		seen[e] = true
		if !before[i].Z.IsOne() {
			nonnorm = true
		}
	}
	unchanged := func(what string) error {
		for i, e := range list {
			if now := hx.FromImpl(e); !hx.G.IsValid(now) || !hx.G.Equal(now, before[i]) {
				return fmt.Errorf("%s changed the point held by element %d of the list (length %d, pattern %s)", what, i, len(list), c.Pattern)
			}
		}
		return nil
	}
	// batch serialisers and batch map-to-field against the single-element operations and the reference
	var comp [][32]byte
	var unc [][64]byte
	res := make([]*fr.Element, len(list))
	for i := range res {
		d := hx.FrFromBig(big.NewInt(int64(1001 + 2*i))) // dirty destinations: a skipped write must show
		res[i] = &d
	}
	var merr error
	if perr := hx.Try(func() {
		comp = banderwagon.ElementsToBytes(list...)
		unc = banderwagon.BatchToBytesUncompressed(list...)
		merr = banderwagon.BatchMapToScalarField(res, list)
	}); perr != nil {
		return perr
	}
	if merr != nil {
		return fmt.Errorf("BatchMapToScalarField: %v", merr)
	}
	if len(comp) != len(list) || len(unc) != len(list) {
		return fmt.Errorf("batch serialisers returned %d / %d entries for %d elements", len(comp), len(unc), len(list))
	}
	if err := unchanged("a batch serialiser / batch map"); err != nil {
		return err
	}
	for i, e := range list {
		single := e.Bytes()
		if comp[i] != single {
			return fmt.Errorf("ElementsToBytes[%d of %d] = %x, Bytes() = %x (pattern %s)", i, len(list), comp[i], single, c.Pattern)
		}
		su := e.BytesUncompressedTrusted()
		if unc[i] != su {
			return fmt.Errorf("BatchToBytesUncompressed[%d of %d] = %x, BytesUncompressedTrusted() = %x", i, len(list), unc[i], su)
		}
		var sm fr.Element
		e.MapToScalarField(&sm)
		if *res[i] != sm {
			return fmt.Errorf("BatchMapToScalarField[%d of %d] differs from MapToScalarField", i, len(list))
		}
		// trusted uncompressed decode gives the same representative back
		var d banderwagon.Element
		if derr := d.SetBytesUncompressed(su[:], true); derr != nil {
			return fmt.Errorf("trusted decode of BytesUncompressedTrusted() failed: %v", derr)
		}
		if dd := hx.FromImpl(&d); !hx.G.IsValid(dd) || !hx.G.Equal(dd, before[i]) {
			return fmt.Errorf("trusted uncompressed round trip of element %d is not Equal to the original", i)
		}
	}
	// batch normalisation, error path first (all-or-nothing), then the success path
	if c.Bad >= 0 && len(list) > 0 {
		var bad banderwagon.Element
		if c.BadKind == 1 {
			b := before[c.Bad%len(list)]
			b.Z.SetZero()
			bad = hx.ToImpl(b)
		}
		badBefore := hx.FromImpl(&bad)
		withBad := append([]*banderwagon.Element(nil), list...)
		withBad[c.Bad%len(list)] = &bad
		beforeBad := make([]hx.RPt, len(withBad))
		for i, e := range withBad {
			beforeBad[i] = hx.FromImpl(e)
		}
		var nerr error
		if perr := hx.Try(func() { nerr = banderwagon.BatchNormalize(withBad) }); perr != nil {
			return fmt.Errorf("BatchNormalize with an un-normalisable element: %w", perr)
		}
		if nerr == nil {
			return fmt.Errorf("BatchNormalize returned no error although element %d has Z = 0", c.Bad%len(list))
		}
		for i, e := range withBad {
			if !hx.SameTriple(beforeBad[i], hx.FromImpl(e)) {
				return fmt.Errorf("BatchNormalize failed (un-normalisable element at %d of %d) but modified element %d", c.Bad%len(list), len(list), i)
			}
		}
		if !hx.SameTriple(badBefore, hx.FromImpl(&bad)) {
			return fmt.Errorf("BatchNormalize modified the un-normalisable element")
		}
		rec.Label("error_path")
	}
	var nerr error
	if perr := hx.Try(func() { nerr = banderwagon.BatchNormalize(list) }); perr != nil {
		return fmt.Errorf("BatchNormalize: %w", perr)
	}
	if nerr != nil {
		return fmt.Errorf("BatchNormalize of %d valid elements failed: %v", len(list), nerr)
	}
	for i, e := range list {
		after := hx.FromImpl(e)
		if !after.Z.IsOne() {
			return fmt.Errorf("after BatchNormalize element %d of %d has Z != 1 (pattern %s)", i, len(list), c.Pattern)
		}
		if !hx.G.IsValid(after) || !hx.G.Equal(after, before[i]) {
			return fmt.Errorf("BatchNormalize changed the point held by element %d of %d (pattern %s, repeated pointers: %v)", i, len(list), c.Pattern, repeated)
		}
	}
	// the same objects, made projective again in place, go through BatchNormalize a second time
	if len(list) > 0 {
		done := map[*banderwagon.Element]bool{}
		for i, e := range list {
			if !done[e] {
				done[e] = true
				*e = hx.ToImpl(hx.Rep(hx.FromImpl(e), 1, uint64(77+i)))
			}
		}
		if perr := hx.Try(func() { nerr = banderwagon.BatchNormalize(list) }); perr != nil || nerr != nil {
			return fmt.Errorf("second BatchNormalize of the same objects: %v %v", perr, nerr)
		}
		for i, e := range list {
			after := hx.FromImpl(e)
			if !after.Z.IsOne() || !hx.G.IsValid(after) || !hx.G.Equal(after, before[i]) {
				return fmt.Errorf("second BatchNormalize of the same objects (re-projectivised in between) left element %d of %d with Z != 1 or changed it", i, len(list))
			}
		}
	}
	rec.Label("pattern="+c.Pattern, "len="+lenBucket(len(list)))
	if repeated && nonnorm {
		rec.NT(fmt.Sprint(c))
		rec.SampleNT(c)
	}
	return nil
}

var c19Part = hx.NewPart("C19", "batch", genC19, evalC19)

func TestC19(t *testing.T) {
	s := hx.Start(t, "C19")
	defer s.Finish()
	s.Guard(func() { Cfg() })
	// the un-normalisable element at EVERY position of lists of several lengths (deterministic)
	h := history{Acts: []act{{Op: "small", N: 3}, {Op: "double", A: 2}, {Op: "add", A: 2, B: 3}, {Op: "crs", N: hx.Shard()}, {Op: "sub", A: 5, B: 4}}}
	for _, n := range []int{1, 2, 3, 4, 5, 8, 17} {
		for bad := 0; bad < n; bad++ {
			if !hx.Sharded(n*31 + bad) {
				continue
			}
			for kind := 0; kind < 2; kind++ {
				list := make([]int, n)
				for i := range list {
					list[i] = 2 + i%5
				}
				c19Part.EvalCase(s, c19Case{H: h, List: list, Bad: bad, BadKind: kind, Pattern: "sweep"})
			}
		}
	}
	c19Part.Run(s, hx.PerShard(hx.Pick(24000, 640000)))
	c19Part.RunConcurrent(s, 8, hx.Pick(150, 2500))
}
