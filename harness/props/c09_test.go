//go:build verif && verif_elem && verif_msm

package props

import (
	"fmt"
	"math"
	"math/big"
	"runtime"
	"strconv"
	"sync"
	"testing"
	"time"

	"github.com/crate-crypto/go-ipa/bandersnatch"
	"github.com/crate-crypto/go-ipa/bandersnatch/fr"
	"github.com/crate-crypto/go-ipa/banderwagon"
	"github.com/crate-crypto/go-ipa/ipa"
	"pgregory.net/rapid"

	"verif/harness/hx"
	"verif/harness/ref"
)

// C09 — variable-base MSM is correct for every size and parallelism setting.

const msmPoolSize = 8192

var (
	msmPoolOnce sync.Once
	msmLogs     []*big.Int
	msmAff      []bandersnatch.PointAffine
	msmElems    []banderwagon.Element
)

// msmPool builds P_i = a_i*G with known a_i = a_0 + i*d (reference side), spot-checked by direct multiplication.
func msmPool() {
	msmPoolOnce.Do(func() {
		a0 := hx.ExpandFr(7, "msmpool", 0)
		d := hx.ExpandFr(7, "msmpool", 1)
		cur := hx.G.Mul(hx.G.Generator(), a0)
		step := hx.G.Mul(hx.G.Generator(), d)
		a := new(big.Int).Set(a0)
		for i := 0; i < msmPoolSize; i++ {
			x, y := hx.G.Affine(cur)
			var aff bandersnatch.PointAffine
			aff.X.SetBigInt(x)
			aff.Y.SetBigInt(y)
			msmLogs = append(msmLogs, new(big.Int).Set(a))
			msmAff = append(msmAff, aff)
			msmElems = append(msmElems, hx.ToImpl(hx.G.FromAffine(x, y)))
			if i%1024 == 5 {
				if !hx.G.Equal(cur, hx.G.Mul(hx.G.Generator(), a)) {
					panic(hx.Inconclusive{Msg: "MSM point pool self-check failed"})
				}
			}
			cur = hx.G.Add(cur, step)
			a = ref.FrAdd(a, d)
		}
	})
}

type c09Case struct {
	API        string `json:"api"` // element | bandersnatch | multiscalar
	N          int    `json:"n"`
	NbTasks    int    `json:"nbtasks"`
	Mont       bool   `json:"mont"`
	ScalarMode string `json:"scalars"` // uniform | zero | small | mixsmall15 | mixsmall5 | recipes | limbs | onehot
	W          int    `json:"w,omitempty"`
	PointMode  string `json:"points"` // pool | dup | identity | rep
	Seed       uint64 `json:"seed"`
	Mismatch   int    `json:"mismatch,omitempty"` // len(scalars) - len(points)
	Noise      uint64 `json:"noise,omitempty"`
	RecvAlias  int    `json:"recv_alias,omitempty"` // element API: k > 0 makes the receiver the (k-1 mod n)-th input element itself
}

var msmThresholds = []int{49, 129, 321, 769, 1793, 4097, 9217, 20481}

func genC09(t *rapid.T) c09Case {
	c := c09Case{
		API:        rapid.SampledFrom([]string{"element", "element", "bandersnatch", "multiscalar"}).Draw(t, "api"),
		ScalarMode: rapid.SampledFrom([]string{"uniform", "uniform", "zero", "small", "mixsmall15", "mixsmall5", "recipes", "recipes", "limbs", "onehot", "word", "word", "paired_same", "paired_neg", "allsame", "montforms"}).Draw(t, "scalars"),
		PointMode:  rapid.SampledFrom([]string{"pool", "pool", "pool", "dup", "identity", "rep", "tieZ", "negpairs", "samepairs"}).Draw(t, "points"),
		Seed:       rapid.Uint64().Draw(t, "seed"),
		Mont:       rapid.Bool().Draw(t, "mont"),
		Noise:      noiseSeedFrom(rapid.Uint64().Draw(t, "noise")),
	}
	switch rapid.IntRange(0, 9).Draw(t, "n_class") {
	case 0, 1:
		c.N = rapid.IntRange(0, 8).Draw(t, "n_tiny")
	case 2, 3, 4:
		th := rapid.SampledFrom(msmThresholds[:6]).Draw(t, "n_threshold")
		c.N = th + rapid.IntRange(-2, 1).Draw(t, "n_delta")
	case 5:
		th := rapid.SampledFrom(msmThresholds).Draw(t, "n_threshold_all")
		c.N = th + rapid.IntRange(-2, 1).Draw(t, "n_delta")
	case 6, 7:
		c.N = rapid.IntRange(1, 300).Draw(t, "n_small")
	default:
		c.N = rapid.IntRange(1, 5000).Draw(t, "n_uniform")
	}
	if rapid.IntRange(0, 2).Draw(t, "tasks_class") == 0 {
		c.NbTasks = rapid.IntRange(0, 1100).Draw(t, "nbtasks_uniform")
	} else {
		c.NbTasks = rapid.SampledFrom([]int{0, 1, 1, 2, 3, 5, 16, 32, 52, 63, 64, 65, 128, 129, 256, 1024}).Draw(t, "nbtasks")
	}
	c.W = rapid.SampledFrom([]int{4, 5, 6, 7, 8, 9, 10, 11, 12, 13, 14, 15, 16}).Draw(t, "w")
	if rapid.IntRange(0, 19).Draw(t, "mismatch") == 0 {
		c.Mismatch = rapid.SampledFrom([]int{-1, 1}).Draw(t, "mismatch_delta")
	}
	if c.API == "element" && rapid.IntRange(0, 5).Draw(t, "recv_alias") == 0 {
		c.RecvAlias = 1 + rapid.IntRange(0, 4000).Draw(t, "recv_k")
	}
	return c
}

// msmScalar returns the j-th scalar of a case.
func (c c09Case) msmScalar(j int) *big.Int {
	h := hx.Expand(c.Seed, "msmsc", j)
	switch c.ScalarMode {
	case "montforms": // values whose limbs coincide with the OTHER form of a small number: k*2^256 mod r and k*2^-256 mod r
		k := big.NewInt(int64(1 + j%3))
		twoTo256 := new(big.Int).Lsh(big.NewInt(1), 256)
		if j%2 == 0 {
			return ref.FrMul(k, twoTo256)
		}
		return ref.FrMul(k, ref.FrInv(twoTo256))
	case "allsame": // every term carries the same scalar
		v := hx.Expand(c.Seed, "msmsc", 0)
		if c.Seed%3 == 0 {
			return scalarSpec{Kind: "limbs", Seed: c.Seed, Digits: []int{int(c.Seed % 7), int(c.Seed / 7 % 7), int(c.Seed / 49 % 7), int(c.Seed / 343 % 7)}}.value()
		}
		return v.Mod(v, ref.R)
	case "paired_same", "paired_neg": // neighbours share their scalar (or its negative): with paired points their terms cancel or double
		v := hx.Expand(c.Seed, "msmsc", j&^1)
		v.Mod(v, ref.R)
		if c.ScalarMode == "paired_neg" && j&1 == 1 {
			return ref.FrNeg(v)
		}
		return v
	case "zero":
		return new(big.Int)
	case "word": // fits one 64-bit word, mostly with the top bits set
		w := new(big.Int).And(h, new(big.Int).SetUint64(^uint64(0)))
		switch new(big.Int).Rsh(h, 100).Uint64() % 5 {
		case 0:
			return new(big.Int).Lsh(big.NewInt(1), 63)
		case 1:
			return new(big.Int).SetUint64(^uint64(0))
		case 2:
			return w
		}
		return w.SetBit(w, 63, 1)
	case "small":
		return new(big.Int).And(h, big.NewInt(15))
	case "mixsmall15", "mixsmall5":
		pct := uint64(15)
		if c.ScalarMode == "mixsmall5" {
			pct = 5
		}
		if new(big.Int).Rsh(h, 200).Uint64()%100 < pct {
			return big.NewInt(int64(1 + h.Uint64()%15))
		}
		return h.Mod(h, ref.R)
	case "recipes":
		nw := (256 + c.W - 1) / c.W
		digits := make([]int, nw)
		sel := new(big.Int).Set(h)
		for i := range digits {
			digits[i] = int(sel.Uint64() % 8)
			sel.Rsh(sel, 3)
			if sel.BitLen() < 8 {
				sel = hx.Expand(c.Seed+1, "msmsc2", j*131+i)
			}
		}
		return scalarSpec{Kind: "windows", W: c.W, Seed: c.Seed + uint64(j), Digits: digits}.value()
	case "limbs":
		return scalarSpec{Kind: "limbs", Seed: c.Seed + uint64(j), Digits: []int{int(h.Uint64() % 7), int(h.Uint64() / 7 % 7), int(h.Uint64() / 49 % 7), int(h.Uint64() / 343 % 7)}}.value()
	case "onehot":
		if j == int(c.Seed%uint64(maxInt(c.N, 1))) {
			return h.Mod(h, ref.R)
		}
		return new(big.Int)
	}
	return h.Mod(h, ref.R)
}

func (c c09Case) pointIndex(j int) int {
	if c.PointMode == "dup" {
		return int(c.Seed % msmPoolSize)
	}
	if c.PointMode == "negpairs" || c.PointMode == "samepairs" {
		j &^= 1 // neighbours hold the same point (negpairs: the odd one negated)
	}
	return int(hx.Expand(c.Seed, "msmpt", j).Uint64() % msmPoolSize)
}

func frScalar(v *big.Int, mont bool) fr.Element {
	if mont {
		return hx.FrFromBig(v)
	}
	return hx.FrSetRaw(v)
}

// bestC mirrors the implementation's cost model; used only to LABEL cases with the window width they exercise.
func bestC(nbPoints int) int {
	best, min := 0, math.MaxFloat64
	for _, c := range []int{4, 5, 6, 7, 8, 9, 10, 11, 12, 13, 14, 15, 16, 20, 21} {
		cost := float64(256*(nbPoints+(1<<c))) / float64(c)
		if cost < min {
			min, best = cost, c
		}
	}
	return best
}

func msmPlan(n, nbTasks int) (c, nbSplits int) {
	if nbTasks <= 0 {
		nbTasks = runtime.NumCPU()
	}
	nbSplits = 1
	nbChunks := 0
	for nbChunks < nbTasks {
		c = bestC(n)
		nbChunks = 256 / c
		if 256%c != 0 {
			nbChunks++
		}
		nbChunks *= nbSplits
		if nbChunks < nbTasks {
			nbSplits <<= 1
			n >>= 1
		}
	}
	return
}

// msmWatchdog is far above the observed cost (<= 1 s for the sizes below, 3-15 s for the huge windows).
func msmWatchdogFor(n, c int) time.Duration {
	if n > 30000 || c >= 20 {
		return 30 * time.Minute
	}
	if n > 2000 {
		return 3 * time.Minute
	}
	return time.Minute // normal cost: a few milliseconds
}

func evalC09(c c09Case, rec *hx.Rec) error {
	msmPool()
	rec.Eval(1)
	rec.Sample(c)
	if c.Noise%4 == 1 {
		runNoise(c.Noise, 2, false)
	}
	n := c.N
	ns := n + c.Mismatch
	if ns < 0 {
		ns = n + 1 // a negative length is not a case; use one scalar too many instead
	}
	mismatch := ns != n
	sum := new(big.Int)
	scal := make([]fr.Element, ns)
	elems := make([]banderwagon.Element, n)
	affs := make([]bandersnatch.PointAffine, n)
	smallCnt := 0
	for j := 0; j < n || j < ns; j++ {
		var s *big.Int
		if j < ns {
			s = c.msmScalar(j)
			scal[j] = frScalar(s, c.Mont || c.API == "multiscalar")
			if s.Sign() > 0 && s.BitLen() <= 4 {
				smallCnt++
			}
		}
		if j < n {
			idx := c.pointIndex(j)
			if c.PointMode == "identity" && j%3 == 1 {
				elems[j] = banderwagon.Identity
				affs[j] = bandersnatch.PointAffine{}
				affs[j].Y.SetOne()
				continue
			}
			elems[j] = msmElems[idx]
			affs[j] = msmAff[idx]
			if c.PointMode == "negpairs" && j&1 == 1 {
				elems[j] = hx.ToImpl(hx.G.Neg(hx.FromImpl(&msmElems[idx])))
				affs[j].X.Neg(&affs[j].X)
				if j < ns {
					sum.Sub(sum, new(big.Int).Mul(s, msmLogs[idx]))
				}
				continue
			}
			if c.PointMode == "rep" || c.PointMode == "tieZ" {
				elems[j] = hx.ToImpl(hx.Rep(hx.FromImpl(&msmElems[idx]), 1+j%3, c.Seed+uint64(j)))
			}
			if j < ns {
				sum.Add(sum, new(big.Int).Mul(s, msmLogs[idx]))
			}
		}
	}
	if c.PointMode == "tieZ" && n >= 2 { // representations whose Z coordinates multiply to exactly 1
		ptrs := make([]*banderwagon.Element, n)
		for j := range elems {
			ptrs[j] = &elems[j]
		}
		var one hx.FE
		one.SetOne()
		if hx.TieProduct(ptrs, "Z", one) {
			rec.Label("points=tieZ:established")
		}
	}
	scalCopy := append([]fr.Element(nil), scal...)
	var got hx.RPt
	var ierr error
	msmWatchdog := msmWatchdogFor(n, 0)
	returned, deadlock, dump, perr := hx.Watchdog(msmWatchdog, func() {
		switch c.API {
		case "element":
			var fresh banderwagon.Element
			fresh.SetIdentity()
			res := &fresh
			if c.RecvAlias > 0 && n > 0 && !mismatch {
				res = &elems[(c.RecvAlias-1)%n] // the receiver is one of the inputs
			}
			var out *banderwagon.Element
			out, ierr = res.MultiExp(elems, scal, banderwagon.MultiExpConfig{NbTasks: c.NbTasks, ScalarsMont: c.Mont})
			if ierr == nil {
				if out != res {
					ierr = fmt.Errorf("MultiExp did not return its receiver")
				}
				got = hx.FromImpl(res)
			}
		case "bandersnatch":
			var res bandersnatch.PointProj
			_, ierr = bandersnatch.MultiExp(&res, affs, scal, bandersnatch.MultiExpConfig{NbTasks: c.NbTasks, ScalarsMont: c.Mont})
			got = hx.RPt{X: res.X, Y: res.Y, Z: res.Z}
		case "multiscalar":
			var res banderwagon.Element
			res, ierr = ipa.MultiScalar(elems, scal)
			got = hx.FromImpl(&res)
		}
	})
	if !returned {
		if deadlock {
			return fmt.Errorf("MSM call did not return within %v and every go-ipa goroutine is parked (deadlock): %s", msmWatchdog, dump)
		}
		if hx.Responsive(5 * time.Second) {
			return fmt.Errorf("MSM call %+v did not return within %v (more than 1000x its normal cost) while the process stayed responsive: %s", c, msmWatchdog, dump)
		}
		panic(hx.Inconclusive{Msg: "MSM call exceeded the watchdog on an unresponsive machine: " + dump})
	}
	if perr != nil {
		return fmt.Errorf("MSM %+v: %w", c, perr)
	}
	cw, splits := msmPlan(n, c.NbTasks)
	if c.API == "multiscalar" {
		cw, splits = msmPlan(n, runtime.NumCPU())
	}
	rec.Label("api="+c.API, "scalars="+c.ScalarMode, "points="+c.PointMode, fmt.Sprintf("c=%d", cw), fmt.Sprintf("mont=%v", c.Mont))
	if splits > 1 {
		rec.Label("nbSplits>1")
	}
	if c.RecvAlias > 0 && c.API == "element" && n > 0 && !mismatch {
		rec.Label("receiver_is_an_input")
	}
	if mismatch {
		if ierr == nil {
			return fmt.Errorf("MSM with %d points and %d scalars returned no error", n, ns)
		}
		rec.Label("length_mismatch")
		return nil
	}
	if ierr != nil {
		return fmt.Errorf("MSM %+v returned error %v", c, ierr)
	}
	_ = scalCopy // input purity is C13's subject, not C09's
	want := hx.G.Mul(hx.G.Generator(), sum.Mod(sum, ref.R))
	if !hx.G.IsValid(got) || !hx.G.Equal(got, want) {
		return fmt.Errorf("MSM result differs from sum s_i*P_i: %+v (window c=%d, nbSplits=%d, NumCPU=%d)", c, cw, splits, runtime.NumCPU())
	}
	firstChunkSplit := n > 0 && float64(smallCnt)/float64(n) >= 0.1
	if firstChunkSplit {
		rec.Label("first_chunk_split")
	}
	if n >= 2 && (splits > 1 || firstChunkSplit || cw != 6 || c.ScalarMode == "recipes" || c.ScalarMode == "limbs") {
		rec.NT(fmt.Sprint(c))
		rec.SampleNT(c)
	}
	return nil
}

var c09Public = hx.NewPart("C09", "public", genC09, evalC09)

// ---- internal entry point: every implemented window width

type c09InnerCase struct {
	C       int      `json:"c"`
	Split   bool     `json:"split"`
	N       int      `json:"n"`
	Mont    bool     `json:"mont"`
	NbTasks int      `json:"nbtasks"`
	Mode    string   `json:"scalars"`
	Seed    uint64   `json:"seed"`
	Raw     []string `json:"raw,omitempty"` // explicit scalar values (hex); overrides Mode/N (native fuzz target)
}

func genC09Inner(t *rapid.T) c09InnerCase {
	return c09InnerCase{
		C:       rapid.SampledFrom([]int{4, 5, 6, 7, 8, 9, 10, 11, 12, 13, 14, 15, 16}).Draw(t, "c"),
		Split:   rapid.Bool().Draw(t, "split"),
		N:       rapid.SampledFrom([]int{1, 2, 3, 7, 64, 143, 0, 5, 33}).Draw(t, "n"),
		Mont:    rapid.Bool().Draw(t, "mont"),
		NbTasks: rapid.SampledFrom([]int{1, 2, 16, 64}).Draw(t, "nbtasks"),
		Mode:    rapid.SampledFrom([]string{"recipes", "recipes", "uniform", "limbs", "small", "mixsmall15", "word", "montforms", "allsame"}).Draw(t, "mode"),
		Seed:    rapid.Uint64().Draw(t, "seed"),
	}
}

func evalC09Inner(c c09InnerCase, rec *hx.Rec) error {
	msmPool()
	rec.Eval(1)
	rec.Sample(c)
	gen := c09Case{N: c.N, ScalarMode: c.Mode, W: c.C, Seed: c.Seed, PointMode: "pool"}
	if c.C > 16 {
		gen.W = 16
	}
	if len(c.Raw) > 0 {
		c.N = len(c.Raw)
		gen.N = c.N
	}
	sum := new(big.Int)
	scal := make([]fr.Element, c.N)
	affs := make([]bandersnatch.PointAffine, c.N)
	for j := 0; j < c.N; j++ {
		s := gen.msmScalar(j)
		if len(c.Raw) > 0 {
			s = new(big.Int).Mod(hx.BigHex(c.Raw[j]), ref.R)
		}
		scal[j] = frScalar(s, c.Mont)
		idx := gen.pointIndex(j)
		affs[j] = msmAff[idx]
		sum.Add(sum, new(big.Int).Mul(s, msmLogs[idx]))
	}
	var res bandersnatch.PointProj
	msmWatchdog := msmWatchdogFor(c.N, c.C)
	returned, deadlock, dump, perr := hx.Watchdog(msmWatchdog, func() {
		parts, _ := bandersnatch.VerifPartitionScalars(scal, uint64(c.C), c.Mont, c.NbTasks)
		bandersnatch.VerifMsmInner(&res, c.C, affs, parts, c.Split)
	})
	if !returned {
		if deadlock {
			return fmt.Errorf("internal MSM c=%d did not return within %v (deadlock): %s", c.C, msmWatchdog, dump)
		}
		if hx.Responsive(5 * time.Second) {
			return fmt.Errorf("internal MSM %+v did not return within %v while the process stayed responsive: %s", c, msmWatchdog, dump)
		}
		panic(hx.Inconclusive{Msg: "internal MSM exceeded the watchdog on an unresponsive machine: " + dump})
	}
	if perr != nil {
		return fmt.Errorf("internal MSM %+v: %w", c, perr)
	}
	rec.Label(fmt.Sprintf("inner:c=%d", c.C), fmt.Sprintf("inner:split=%v", c.Split))
	got := hx.RPt{X: res.X, Y: res.Y, Z: res.Z}
	want := hx.G.Mul(hx.G.Generator(), sum.Mod(sum, ref.R))
	if !hx.G.IsValid(got) || !hx.G.Equal(got, want) {
		return fmt.Errorf("internal MSM (window c=%d, splitFirstChunk=%v, n=%d, mont=%v, scalars=%s) differs from sum s_i*P_i", c.C, c.Split, c.N, c.Mont, c.Mode)
	}
	if c.N >= 2 {
		rec.NT("inner", fmt.Sprint(c))
	}
	return nil
}

var c09Inner = hx.NewPart("C09", "inner", genC09Inner, evalC09Inner)

func TestC09(t *testing.T) {
	s := hx.Start(t, "C09")
	defer s.Finish()
	s.Guard(msmPool)
	sh := hx.Shard()
	// deterministic grid of the internal entry point: every width x split x sizes, partitioned over shards
	u := 0
	for _, c := range []int{4, 5, 6, 7, 8, 9, 10, 11, 12, 13, 14, 15, 16} {
		for _, split := range []bool{false, true} {
			for _, n := range []int{1, 2, 3, 7, 64, 143} {
				u++
				if hx.Sharded(u) {
					c09Inner.EvalCase(s, c09InnerCase{C: c, Split: split, N: n, Mont: u%2 == 0, NbTasks: 16, Mode: "recipes", Seed: uint64(1000*hx.Seed() + u)})
				}
			}
		}
	}
	// the huge window widths (50-200 MB of buckets per chunk): (20,21) x (split, no split) in quick, plus 22 in thorough
	bigCombos := []struct {
		c     int
		split bool
	}{{20, false}, {21, true}, {20, true}, {21, false}, {22, false}, {22, true}}
	nBig := 4
	if hx.Thorough() {
		nBig = 6
	}
	if strconv.IntSize == 32 {
		nBig = 0 // the bucket arrays of these widths do not fit a 32-bit address space
	}
	if sh < nBig {
		b := bigCombos[sh]
		c09Inner.EvalCase(s, c09InnerCase{C: b.c, Split: b.split, N: []int{3, 64, 143}[(sh/2)%3], Mont: true, NbTasks: 16, Mode: "uniform", Seed: uint64(hx.Seed())})
	}
	// public path: thresholds that the rapid draw rarely reaches are forced (large n in thorough only)
	if hx.Thorough() {
		larges := []int{20480, 20481, 45056, 45057, 98304, 98305, 212993, 458753}
		for i, n := range larges {
			if hx.Sharded(i) {
				c09Public.EvalCase(s, c09Case{API: "element", N: n, NbTasks: []int{0, 16, 64, 1}[i%4], Mont: i%2 == 0, ScalarMode: "uniform", PointMode: "pool", Seed: uint64(n)})
			}
		}
	}
	c09Inner.Run(s, hx.PerShard(hx.Pick(3200, 60000)))
	c09Public.Run(s, hx.PerShard(hx.Pick(6400, 96000)))
}
