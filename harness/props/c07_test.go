//go:build verif && verif_elem

package props

import (
	"bytes"
	"fmt"
	"testing"

	"github.com/crate-crypto/go-ipa/bandersnatch/fr"
	"github.com/crate-crypto/go-ipa/banderwagon"
	"pgregory.net/rapid"

	"verif/harness/hx"
)

// C07 — compressed encoding is canonical: equal bytes iff equal group elements.

func evalC07(h history, rec *hx.Rec) error {
	rec.Eval(1)
	rec.Sample(h)
	pool, err := runPool(h, rec)
	if err != nil {
		return err
	}
	n := len(pool)
	refs := make([]hx.RPt, n)
	enc := make([][32]byte, n)
	var zero banderwagon.Element
	for i, e := range pool {
		refs[i] = hx.FromImpl(e)
		before := refs[i]
		if perr := hx.Try(func() { enc[i] = e.Bytes() }); perr != nil {
			return perr
		}
		if now := hx.FromImpl(e); !hx.G.IsValid(now) || !hx.G.Equal(before, now) {
			return fmt.Errorf("Bytes() changed the group element held by slot %d", i)
		}
		want := hx.G.Compress(refs[i])
		if enc[i] != want {
			return fmt.Errorf("slot %d: Bytes() = %x, reference compression of the same coordinates = %x", i, enc[i], want)
		}
		// decoding P.Bytes() succeeds and gives an element equal to P
		var d banderwagon.Element
		if derr := d.SetBytes(enc[i][:]); derr != nil {
			return fmt.Errorf("slot %d: decoding P.Bytes() failed: %v", i, derr)
		}
		if !hx.G.Equal(hx.FromImpl(&d), refs[i]) || !d.Equal(e) || !e.Equal(&d) {
			return fmt.Errorf("slot %d: decode(P.Bytes()) is not Equal to P", i)
		}
		if !e.Equal(e) {
			return fmt.Errorf("slot %d: Equal is not reflexive", i)
		}
		if e.Equal(&zero) || zero.Equal(e) {
			return fmt.Errorf("slot %d: Equal is true against the all-zero (uninitialised) value", i)
		}
		// batch serialiser agrees
		if i%4 == 0 {
			bs := banderwagon.ElementsToBytes(e)
			if len(bs) != 1 || bs[0] != enc[i] {
				return fmt.Errorf("slot %d: ElementsToBytes differs from Bytes()", i)
			}
			if now := hx.FromImpl(e); !hx.G.IsValid(now) || !hx.G.Equal(refs[i], now) {
				return fmt.Errorf("slot %d: ElementsToBytes changed the group element held by its argument", i)
			}
		}
	}
	if zero.Equal(&zero) {
		return fmt.Errorf("Equal(zero value, zero value) is true")
	}
	// the batch serialiser over the whole (mixed-representation) pool gives the same canonical bytes
	var all [][32]byte
	if perr := hx.Try(func() { all = banderwagon.ElementsToBytes(pool...) }); perr != nil {
		return perr
	}
	for i := range pool {
		if len(all) != n || all[i] != enc[i] {
			return fmt.Errorf("ElementsToBytes over the pool of %d elements: entry %d = %x, Bytes() = %x", n, i, all[i], enc[i])
		}
	}
	// ... and over long lists (private copies of the pool elements cycled up to a block-size boundary plus one)
	if hk := hx.Hash64(fmt.Sprint(h.Acts)); hk%8 == 0 && n > 0 {
		L := []int{1025, 2049, 1024, 257}[hk>>3%4]
		long := make([]*banderwagon.Element, L)
		for i := range long {
			c := *pool[i%n]
			long[i] = &c
		}
		var lb [][32]byte
		if perr := hx.Try(func() { lb = banderwagon.ElementsToBytes(long...) }); perr != nil {
			return perr
		}
		for i := range long {
			if len(lb) != L || lb[i] != enc[i%n] {
				return fmt.Errorf("ElementsToBytes over %d elements: entry %d differs from Bytes() of the same element", L, i)
			}
		}
		rec.Label(fmt.Sprintf("long_batch=%d", L))
	}
	eqDiffRep, uneq := 0, 0
	for i := 0; i < n; i++ {
		for j := i + 1; j < n; j++ {
			want := hx.G.Equal(refs[i], refs[j])
			ij, ji := pool[i].Equal(pool[j]), pool[j].Equal(pool[i])
			be := bytes.Equal(enc[i][:], enc[j][:])
			if ij != want || ji != want || be != want {
				return fmt.Errorf("slots %d,%d: P.Equal(Q)=%v Q.Equal(P)=%v bytes-equal=%v, reference equality of the coordinates=%v", i, j, ij, ji, be, want)
			}
			if want {
				if !hx.SameTriple(refs[i], refs[j]) {
					eqDiffRep++
				}
			} else {
				uneq++
			}
		}
	}
	rec.LabelN("pairs_equal_different_triples", eqDiffRep)
	rec.LabelN("pairs_unequal", uneq)
	nonplain := 0
	for i := range refs {
		if !refs[i].Z.IsOne() {
			nonplain++
		}
	}
	rec.LabelN("elements_Z!=1", nonplain)
	if eqDiffRep > 0 && uneq > 0 {
		rec.NT(fmt.Sprint(h))
		rec.SampleNT(h)
	}
	return nil
}

var c07Part = hx.NewPart("C07", "pool", func(t *rapid.T) history {
	return genHistory(t, rapid.SampledFrom([]int{30, 30, 30, 60}).Draw(t, "max_acts"))
}, evalC07)

func TestC07(t *testing.T) {
	s := hx.Start(t, "C07")
	defer s.Finish()
	s.Guard(func() { Cfg() })
	// forced: elements whose affine y is next to p/2 (both sign choices, with and without limb-aligned offsets), their
	// negatives and flipped representatives; a table MSM over a caller-built basis
	var fh history
	for j := 0; j < 8; j++ {
		fh.Acts = append(fh.Acts, act{Op: "y_near_half", N: 97*j + 13*hx.Shard() + 1000*hx.Seed(), Seed: uint64(j)})
	}
	one, two := scalarSpec{Kind: "one"}, scalarSpec{Kind: "small", N: 2}
	fh.Acts = append(fh.Acts, act{Op: "neg", A: 2}, act{Op: "flip", A: 3}, act{Op: "rescale", A: 4, Seed: 5}, act{Op: "redecode", A: 5},
		act{Op: "precomp_custom", N: hx.Shard() % 8, S: &one, T: &two})
	c07Part.EvalCase(s, fh)
	c07Part.Run(s, hx.PerShard(hx.Pick(40000, 400000)))
	c07Part.RunConcurrent(s, 8, hx.Pick(250, 4000))
}

// ------------------------------------------------------------------ C11 map to scalar field

type c11Case struct {
	H     history `json:"h"`
	Batch []int   `json:"batch"` // pool indices (with repetitions) for the batch call
}

func genC11(t *rapid.T) c11Case {
	c := c11Case{H: genHistory(t, 24)}
	n := rapid.SampledFrom([]int{0, 1, 2, 3, 15, 16, 17, 100, 255, 256, 257, 300}).Draw(t, "batch_len")
	if rapid.Bool().Draw(t, "batch_any") {
		n = rapid.IntRange(0, 300).Draw(t, "batch_n")
	}
	mode := rapid.IntRange(0, 2).Draw(t, "batch_mode")
	for i := 0; i < n; i++ {
		switch mode {
		case 0:
			c.Batch = append(c.Batch, rapid.IntRange(0, 1000).Draw(t, "bi"))
		case 1:
			c.Batch = append(c.Batch, i)
		default:
			c.Batch = append(c.Batch, i/3)
		}
	}
	return c
}

func evalC11(c c11Case, rec *hx.Rec) error {
	rec.Eval(1)
	rec.Sample(c)
	pool, err := runPool(c.H, rec)
	if err != nil {
		return err
	}
	n := len(pool)
	refs := make([]hx.RPt, n)
	vals := make([]fr.Element, n)
	nontrivial := false
	for i, e := range pool {
		refs[i] = hx.FromImpl(e)
		vals[i] = hx.FrSetRaw(hx.Expand(uint64(i), "dirty", 0).Rsh(hx.Expand(uint64(i), "dirty", 0), 4)) // dirty destination
		if perr := hx.Try(func() { e.MapToScalarField(&vals[i]) }); perr != nil {
			return perr
		}
		if now := hx.FromImpl(e); !hx.G.IsValid(now) || !hx.G.Equal(refs[i], now) {
			return fmt.Errorf("MapToScalarField changed the group element held by slot %d", i)
		}
		want := hx.G.MapToScalar(refs[i])
		if !hx.FrReduced(&vals[i]) || hx.FrToBig(&vals[i]).Cmp(want) != 0 {
			return fmt.Errorf("slot %d: MapToScalarField = %s, reference x/y mod r = %s", i, hx.FrToBig(&vals[i]).Text(16), want.Text(16))
		}
		if !refs[i].Z.IsOne() {
			nontrivial = true
		}
	}
	for i := 0; i < n; i++ {
		for j := i + 1; j < n; j++ {
			same := vals[i] == vals[j]
			eq := hx.G.Equal(refs[i], refs[j])
			if eq && !same {
				return fmt.Errorf("slots %d,%d hold the same group element but have different map-to-field values", i, j)
			}
			if !eq && same {
				// x/y differs in the BASE field for distinct elements (what the property states); the reduction into the
				// smaller scalar field may still collide (x/y = m*r maps to 0 like the identity) - every value was already
				// compared with the reference above, so this is a property of the map, not of the code
				rec.Label("distinct_elements_colliding_after_reduction")
			}
		}
	}
	// batch variant
	elems := make([]*banderwagon.Element, len(c.Batch))
	res := make([]*fr.Element, len(c.Batch))
	for k, idx := range c.Batch {
		elems[k] = pool[idx%n]
		res[k] = new(fr.Element)
		*res[k] = hx.FrSetRaw(hx.Expand(uint64(k), "dirty2", 0).Rsh(hx.Expand(uint64(k), "dirty2", 0), 4))
	}
	var berr error
	if perr := hx.Try(func() { berr = banderwagon.BatchMapToScalarField(res, elems) }); perr != nil {
		return perr
	}
	if berr != nil {
		return fmt.Errorf("BatchMapToScalarField on %d valid elements: %v", len(elems), berr)
	}
	for k, idx := range c.Batch {
		if *res[k] != vals[idx%n] {
			return fmt.Errorf("BatchMapToScalarField position %d (pool slot %d, batch length %d) = %s, single call = %s", k, idx%n, len(c.Batch),
				hx.FrToBig(res[k]).Text(16), hx.FrToBig(&vals[idx%n]).Text(16))
		}
		if now := hx.FromImpl(elems[k]); !hx.G.IsValid(now) || !hx.G.Equal(refs[idx%n], now) {
			return fmt.Errorf("BatchMapToScalarField changed the group element at position %d", k)
		}
	}
	// length mismatch is reported
	if len(elems) > 0 {
		var merr error
		if perr := hx.Try(func() { merr = banderwagon.BatchMapToScalarField(res[:len(res)-1], elems) }); perr != nil {
			return perr
		}
		if merr == nil {
			return fmt.Errorf("BatchMapToScalarField accepted result/elements slices of different length")
		}
	}
	rec.Label("batch_len=" + lenBucket(len(c.Batch)))
	if nontrivial {
		rec.NT(fmt.Sprint(c))
		rec.SampleNT(c)
	}
	return nil
}

var c11Part = hx.NewPart("C11", "pool", genC11, evalC11)

func TestC11(t *testing.T) {
	s := hx.Start(t, "C11")
	defer s.Finish()
	s.Guard(func() { Cfg() })
	// constructed elements whose x/y is a small integer, lies just below / above a multiple of r, or just below p
	for blk := 0; blk < 18; blk++ {
		if hx.Sharded(blk) {
			var h history
			for j := 0; j < 6; j++ {
				h.Acts = append(h.Acts, act{Op: "small_ratio", N: 50*blk + (7*j+hx.Seed()+hx.Shard())%50})
			}
			h.Acts = append(h.Acts, act{Op: "rescale", A: 2, Seed: 77}, act{Op: "flip", A: 3})
			c11Part.EvalCase(s, c11Case{H: h, Batch: []int{2, 2, 3, 4, 0, 5, 2, 6, 7, 1, 8, 9}})
		}
	}
	c11Part.Run(s, hx.PerShard(hx.Pick(40000, 400000)))
	c11Part.RunConcurrent(s, 8, hx.Pick(250, 4000))
}
