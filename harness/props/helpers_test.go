//go:build verif && verif_elem

package props

import (
	"fmt"
	"math/big"
	"sync"

	gfr "github.com/consensys/gnark-crypto/ecc/bls12-381/fr"
	"github.com/crate-crypto/go-ipa/bandersnatch/fr"
	"github.com/crate-crypto/go-ipa/banderwagon"
	"github.com/crate-crypto/go-ipa/ipa"
	"pgregory.net/rapid"

	"verif/harness/hx"
	"verif/harness/ref"
)

var (
	cfgOnce sync.Once
	cfgVal  *ipa.IPAConfig
)

// Cfg returns the process-wide go-ipa configuration (built once; ~7 s).
func Cfg() *ipa.IPAConfig {
	cfgOnce.Do(func() {
		c, err := ipa.NewIPASettings()
		if err != nil {
			panic(hx.Inconclusive{Msg: "NewIPASettings: " + err.Error()})
		}
		cfgVal = c
	})
	return cfgVal
}

// pcall is one API call of a history / plan (C12, C13), described by small parameters.
type pcall struct {
	Op   string `json:"op"`
	Seed uint64 `json:"seed"`
	N    int    `json:"n,omitempty"`
	K    int    `json:"k,omitempty"`
	Flag bool   `json:"flag,omitempty"`
}

var rMinus1 = new(big.Int).Sub(ref.R, big.NewInt(1))

// ---------------------------------------------------------------- polynomials

// polySpec describes a polynomial in evaluation form by kind and small parameters.
type polySpec struct {
	Kind string `json:"kind"` // zero | const | onehot | sparse | dense | max | ramp
	Seed uint64 `json:"seed,omitempty"`
	Idx  []int  `json:"idx,omitempty"` // hot positions (onehot / sparse / recipe)
	Val  string `json:"val,omitempty"` // hex value (const / onehot)
	// recipe: structured values (limb patterns, window digits, 2^k-1, ...) at the hot positions, Base elsewhere
	Vals []scalarSpec `json:"vals,omitempty"`
	Base int          `json:"base,omitempty"`
}

func (p polySpec) evals() []*big.Int {
	f := make([]*big.Int, 256)
	for i := range f {
		f[i] = new(big.Int)
	}
	switch p.Kind {
	case "zero":
	case "const":
		v := new(big.Int).Mod(hx.BigHex(p.Val), ref.R)
		for i := range f {
			f[i] = v
		}
	case "onehot":
		f[p.Idx[0]&255] = new(big.Int).Mod(hx.BigHex(p.Val), ref.R)
	case "sparse":
		for k, i := range p.Idx {
			f[i&255] = hx.ExpandFr(p.Seed, "sparse", k)
		}
	case "dense":
		for i := range f {
			f[i] = hx.ExpandFr(p.Seed, "dense", i)
		}
	case "max":
		for i := range f {
			f[i] = rMinus1
		}
	case "ramp":
		for i := range f {
			f[i] = big.NewInt(int64(i%32 + 1 + int(p.Seed%7)))
		}
	case "recipe":
		for i := range f {
			f[i] = big.NewInt(int64(p.Base))
		}
		for k, i := range p.Idx {
			if k < len(p.Vals) {
				f[i&255] = p.Vals[k].value()
			}
		}
	case "cancel": // non-zero values confined to one half (Base 0: lower, 1: upper) that SUM to zero (v, ..., -(v+...))
		sum := new(big.Int)
		used := map[int]bool{}
		last := -1
		for k, i := range p.Idx {
			pos := (i & 127) | (p.Base&1)<<7
			if used[pos] {
				continue
			}
			used[pos] = true
			if last >= 0 {
				f[last] = hx.ExpandFr(p.Seed, "cancel", k)
				if p.Seed%3 == 0 {
					f[last] = big.NewInt(int64(1 + k))
				}
				sum.Add(sum, f[last])
			}
			last = pos
		}
		if last >= 0 {
			f[last] = ref.FrNeg(sum)
		}
	case "steps": // piecewise constant: runs of equal neighbouring evaluations of length Base+1
		run := p.Base + 1
		for i := range f {
			f[i] = hx.ExpandFr(p.Seed, "steps", i/run)
			if p.Seed%2 == 0 {
				f[i] = big.NewInt(int64((i / run) % 3))
			}
		}
	case "monomial255": // X^255 in evaluation form
		for i := range f {
			f[i] = new(big.Int).Exp(big.NewInt(int64(i)), big.NewInt(255), ref.R)
		}
	default:
		panic(hx.Inconclusive{Msg: "unknown polynomial kind " + p.Kind})
	}
	return f
}

func genScalarHex(t *rapid.T, label string) string {
	switch rapid.IntRange(0, 5).Draw(t, label+"_class") {
	case 0:
		return "1"
	case 1:
		return hx.HexBig(rMinus1)
	case 2:
		return hx.HexBig(big.NewInt(int64(rapid.IntRange(0, 300).Draw(t, label+"_small"))))
	default:
		return hx.HexBig(hx.ExpandFr(rapid.Uint64().Draw(t, label+"_seed"), "scalar", 0))
	}
}

func genPoly(t *rapid.T, label string) polySpec {
	kind := rapid.SampledFrom([]string{"zero", "const", "onehot", "sparse", "sparse", "dense", "dense", "max", "ramp", "recipe", "recipe", "cancel", "steps"}).Draw(t, label+"_kind")
	p := polySpec{Kind: kind}
	switch kind {
	case "const":
		p.Val = genScalarHex(t, label+"_val")
	case "onehot":
		p.Idx = []int{rapid.IntRange(0, 255).Draw(t, label+"_idx")}
		p.Val = genScalarHex(t, label+"_val")
	case "sparse":
		p.Seed = rapid.Uint64().Draw(t, label+"_seed")
		p.Idx = rapid.SliceOfN(rapid.IntRange(0, 255), 1, 6).Draw(t, label+"_idxs")
	case "dense", "ramp":
		p.Seed = rapid.Uint64().Draw(t, label+"_seed")
	case "cancel":
		p.Seed = rapid.Uint64().Draw(t, label+"_seed")
		p.Base = rapid.IntRange(0, 1).Draw(t, label+"_half")
		p.Idx = rapid.SliceOfN(rapid.IntRange(0, 127), 2, 5).Draw(t, label+"_idxs")
	case "steps":
		p.Seed = rapid.Uint64().Draw(t, label+"_seed")
		p.Base = rapid.SampledFrom([]int{1, 2, 7, 31, 127}).Draw(t, label+"_run")
	case "recipe":
		p.Base = rapid.SampledFrom([]int{0, 0, 5, 1}).Draw(t, label+"_base")
		p.Idx = rapid.SliceOfN(rapid.IntRange(0, 255), 1, 4).Draw(t, label+"_idxs")
		for range p.Idx {
			p.Vals = append(p.Vals, genScalar(t, label+"_rv", []int{8, 16}))
		}
	}
	return p
}

// ---------------------------------------------------------------- opening sets

type opening struct {
	Poly   int    `json:"poly"`             // index into Polys
	Z      int    `json:"z"`                // evaluation index 0..255
	Rep    int    `json:"rep,omitempty"`    // bit0 rescale, bit1 sign-flip of the commitment representation
	Lambda uint64 `json:"lambda,omitempty"` // seed of the rescaling factor
	Share  int    `json:"share,omitempty"`  // 1+index of an earlier opening whose commitment POINTER is reused (0 = own object)
}

type openSet struct {
	Label  string     `json:"label"`
	Polys  []polySpec `json:"polys"`
	Open   []opening  `json:"open"`
	Shape  string     `json:"shape"`             // generator class (informational)
	Noise  uint64     `json:"noise,omitempty"`   // seed of unrelated API calls executed before / in between (0 = quiet process)
	ShareY bool       `json:"share_y,omitempty"` // openings with equal claimed values pass the SAME *fr.Element
}

func genLabel(t *rapid.T) string {
	switch rapid.IntRange(0, 4).Draw(t, "label_class") {
	case 0:
		return ""
	case 1:
		return "vt"
	case 2:
		return rapid.StringMatching(`[a-z]{1,12}`).Draw(t, "label")
	case 3:
		n := rapid.SampledFrom([]int{900, 1024, 2048}).Draw(t, "label_len")
		return string(hx.ExpandBytes(uint64(n), "label", n))
	}
	return "multiproof"
}

// genOpenSet draws an opening set with at most maxN openings; numCPU steers the sizes around worker-batch boundaries.
func genOpenSet(t *rapid.T, maxN int, numCPU int) openSet {
	W := numCPU
	sizes := []int{1, 2, 3, 4, 5, 7, W - 1, W, W + 1, 2*W - 1, 2 * W, 2*W + 1, 3*W + 2}
	var n int
	switch rapid.IntRange(0, 9).Draw(t, "n_class") {
	case 0, 1, 2, 3, 4, 5:
		n = rapid.SampledFrom(sizes).Draw(t, "n_boundary")
	case 6, 7:
		n = rapid.IntRange(1, 12).Draw(t, "n_small")
	case 8:
		n = rapid.IntRange(30, 60).Draw(t, "n_mid")
	default:
		if rapid.Bool().Draw(t, "n_large_boundary") { // sizes around 256 per index and around the verifier's MSM window thresholds
			n = rapid.SampledFrom([]int{128, 129, 130, 255, 256, 257, 300, 320, 321, 322, 511, 512, 513, 768, 769, 770}).Draw(t, "n_lb")
		} else {
			n = rapid.IntRange(61, 300).Draw(t, "n_large")
		}
	}
	if n < 1 {
		n = 1
	}
	if n > maxN && maxN < 300 {
		n = 1 + n%maxN
	}
	shape := rapid.SampledFrom([]string{"allsame", "distinct", "clusters", "extremes", "gaps", "uniform", "uniform"}).Draw(t, "z_pattern")
	base := rapid.IntRange(0, 255).Draw(t, "z_base")
	stride := rapid.SampledFrom([]int{1, 2, 3, 7, 16, 37, 128, 255}).Draw(t, "z_stride")
	npolys := rapid.IntRange(1, minInt(n, 6)).Draw(t, "npolys")
	os := openSet{Label: genLabel(t), Shape: shape, Noise: noiseSeedFrom(rapid.Uint64().Draw(t, "noise"))}
	for i := 0; i < npolys; i++ {
		os.Polys = append(os.Polys, genPoly(t, fmt.Sprintf("p%d", i)))
	}
	repMode := rapid.SampledFrom([]string{"plain", "plain", "mixed", "allflip", "allscaled"}).Draw(t, "rep_mode")
	shareMode := rapid.SampledFrom([]string{"none", "none", "share", "sharemany"}).Draw(t, "share_mode")
	lastOfPoly := map[int]int{}
	for i := 0; i < n; i++ {
		o := opening{}
		if i < npolys {
			o.Poly = i
		} else {
			o.Poly = rapid.IntRange(0, npolys-1).Draw(t, "poly")
		}
		switch shape {
		case "allsame":
			o.Z = base
		case "distinct":
			o.Z = (base + i*stride) & 255
		case "clusters":
			o.Z = []int{base, (base + stride) & 255}[i%2]
		case "extremes":
			o.Z = []int{0, 255, 1, 254, 128, 127}[rapid.IntRange(0, 5).Draw(t, "zx")]
		case "gaps":
			o.Z = (3 + 5*(i%40) + base%3) & 255
		default:
			o.Z = rapid.IntRange(0, 255).Draw(t, "z")
		}
		if p := os.Polys[o.Poly]; len(p.Idx) > 0 && rapid.IntRange(0, 2).Draw(t, "adjacent") == 0 {
			o.Z = (p.Idx[0] + 255) & 255 // open right below a hot position: (f(j)-f(z))/(j-z) = f(j)-f(z)
		}
		switch repMode {
		case "mixed":
			o.Rep = rapid.IntRange(0, 3).Draw(t, "rep")
		case "allflip":
			o.Rep = 2
		case "allscaled":
			o.Rep = 1
		}
		if o.Rep&1 != 0 {
			o.Lambda = rapid.Uint64().Draw(t, "lambda")
		}
		if prev, ok := lastOfPoly[o.Poly]; ok && shareMode != "none" {
			if shareMode == "sharemany" || rapid.Bool().Draw(t, "share") {
				o.Share = prev + 1
				o.Rep, o.Lambda = 0, 0
			}
		}
		if o.Share == 0 {
			lastOfPoly[o.Poly] = i
		}
		os.Open = append(os.Open, o)
	}
	os.ShareY = rapid.IntRange(0, 3).Draw(t, "share_y") == 0
	return os
}

func maxInt(a, b int) int {
	if a > b {
		return a
	}
	return b
}

func minInt(a, b int) int {
	if a < b {
		return a
	}
	return b
}

// builtSet is an opening set materialised on both sides.
type builtSet struct {
	polysBig [][]*big.Int   // per polynomial
	polysFr  [][]fr.Element // per polynomial (shared by openings of the same polynomial)
	commRef  []hx.RPt       // per polynomial: reference-side commitment as returned by go-ipa's Commit (affine of it)
	Cs       []*banderwagon.Element
	CsRef    []hx.RPt // per opening: the exact representation handed to go-ipa
	fs       [][]fr.Element
	fsBig    [][]*big.Int
	zs       []uint8
	zsInt    []int
	ys       []*fr.Element
	ysBig    []*big.Int
}

// build materialises the set. Commitments are computed with go-ipa's Commit (as the
// properties state: commitment_i = Commit(f_i)) and then re-represented through the hook.
func (os openSet) build() (*builtSet, error) {
	cfg := Cfg()
	b := &builtSet{}
	for _, p := range os.Polys {
		ev := p.evals()
		b.polysBig = append(b.polysBig, ev)
		b.polysFr = append(b.polysFr, hx.FrSliceFromBig(ev))
	}
	comm := make([]banderwagon.Element, len(os.Polys))
	for i := range os.Polys {
		i := i
		if err := hx.Try(func() { comm[i] = cfg.Commit(b.polysFr[i]) }); err != nil {
			return nil, fmt.Errorf("Commit: %w", err)
		}
		b.commRef = append(b.commRef, hx.FromImpl(&comm[i]))
	}
	sharedY := map[string]*fr.Element{}
	for i, o := range os.Open {
		var ptr *banderwagon.Element
		if o.Share > 0 {
			ptr = b.Cs[o.Share-1]
			b.CsRef = append(b.CsRef, b.CsRef[o.Share-1])
		} else {
			rp := hx.Rep(b.commRef[o.Poly], o.Rep, o.Lambda)
			e := hx.ToImpl(rp)
			ptr = &e
			b.CsRef = append(b.CsRef, rp)
		}
		b.Cs = append(b.Cs, ptr)
		b.fs = append(b.fs, b.polysFr[o.Poly])
		b.fsBig = append(b.fsBig, b.polysBig[o.Poly])
		b.zs = append(b.zs, uint8(o.Z))
		b.zsInt = append(b.zsInt, o.Z)
		y := hx.FrFromBig(b.polysBig[o.Poly][o.Z])
		yp := &y
		if os.ShareY {
			key := b.polysBig[o.Poly][o.Z].Text(16)
			if prev, ok := sharedY[key]; ok {
				yp = prev
			} else {
				sharedY[key] = yp
			}
		}
		b.ys = append(b.ys, yp)
		b.ysBig = append(b.ysBig, b.polysBig[o.Poly][o.Z])
		_ = i
	}
	return b, nil
}

// shapeLabels classifies an opening set for the evidence histogram.
func (os openSet) shapeLabels(numCPU int) (labels []string, distinctZ int) {
	n := len(os.Open)
	seen := map[int]bool{}
	shared, nonplain := false, false
	for _, o := range os.Open {
		seen[o.Z] = true
		if o.Share > 0 {
			shared = true
		}
		if o.Rep != 0 {
			nonplain = true
		}
	}
	distinctZ = len(seen)
	labels = append(labels, "shape="+os.Shape)
	if n > numCPU {
		labels = append(labels, "n>NumCPU")
	}
	if n%numCPU != 0 {
		labels = append(labels, "n%NumCPU!=0")
	}
	if n < numCPU {
		labels = append(labels, "n<NumCPU")
	}
	if distinctZ >= 2 {
		labels = append(labels, "distinctZ>=2")
	}
	if shared {
		labels = append(labels, "shared_pointer")
	}
	if os.ShareY {
		labels = append(labels, "shared_y_pointer")
	}
	if nonplain {
		labels = append(labels, "nonplain_commitment")
	}
	if len(os.Label) > 512 {
		labels = append(labels, "long_label")
	}
	if 100*n+len(os.Label) > 1024 {
		labels = append(labels, "pending>1024B")
	}
	switch {
	case n == 1:
		labels = append(labels, "n=1")
	case n <= 8:
		labels = append(labels, "n=2..8")
	case n <= 64:
		labels = append(labels, "n=9..64")
	default:
		labels = append(labels, "n>64")
	}
	return
}

// ---------------------------------------------------------------- conversions of proofs

func proofToImplIPA(p ref.IPAProof[gfr.Element]) ipa.IPAProof {
	var out ipa.IPAProof
	for _, l := range p.L {
		out.L = append(out.L, hx.ToImpl(l))
	}
	for _, r := range p.R {
		out.R = append(out.R, hx.ToImpl(r))
	}
	out.A_scalar = hx.FrFromBig(p.A)
	return out
}
