//go:build verif && verif_elem

package props

import (
	"bytes"
	"fmt"
	"math/big"
	"runtime"
	"testing"

	multiproof "github.com/crate-crypto/go-ipa"
	"github.com/crate-crypto/go-ipa/bandersnatch/fr"
	"github.com/crate-crypto/go-ipa/banderwagon"
	"github.com/crate-crypto/go-ipa/common"
	"github.com/crate-crypto/go-ipa/ipa"
	"pgregory.net/rapid"

	"verif/harness/hx"
	"verif/harness/ref"
)

// ------------------------------------------------------------------ C01 completeness

func genC01(t *rapid.T) openSet { return genOpenSet(t, 300, runtime.NumCPU()) }

func evalC01(os openSet, rec *hx.Rec) error {
	cfg := Cfg()
	ncpu := runtime.NumCPU()
	rec.Eval(1)
	labels, dz := os.shapeLabels(ncpu)
	rec.Label(labels...)
	rec.Sample(os)
	b, err := os.build()
	if err != nil {
		return err
	}
	runNoise(os.Noise, 3, true)
	trp := common.NewTranscript(os.Label)
	var proof *multiproof.MultiProof
	var perr error
	if e := hx.Try(func() { proof, perr = multiproof.CreateMultiProof(trp, cfg, b.Cs, b.fs, b.zs) }); e != nil {
		return fmt.Errorf("CreateMultiProof: %w", e)
	}
	runNoise(os.Noise>>1, 2, true) // and between proving and verifying
	if os.Noise != 0 {
		rec.Label("after_history_noise")
	}
	if perr != nil || proof == nil {
		return fmt.Errorf("CreateMultiProof returned error %v for an honest opening set", perr)
	}
	// The verifier is given the statement as the property states it: commitment_i = Commit(f_i) in the generated
	// representation and sharing pattern, rebuilt from the reference-side copy — not the objects the prover was handed.
	fresh, ferr := os.build()
	if ferr != nil {
		return ferr
	}
	trv := common.NewTranscript(os.Label)
	var ok bool
	var verr error
	if e := hx.Try(func() { ok, verr = multiproof.CheckMultiProof(trv, cfg, proof, fresh.Cs, fresh.ys, fresh.zs) }); e != nil {
		return fmt.Errorf("CheckMultiProof: %w", e)
	}
	if !ok || verr != nil {
		return fmt.Errorf("honest multiproof rejected: ok=%v err=%v (n=%d, distinct z=%d, NumCPU=%d)", ok, verr, len(os.Open), dz, ncpu)
	}
	c1 := trp.ChallengeScalar([]byte("state"))
	c2 := trv.ChallengeScalar([]byte("state"))
	if c1 != c2 {
		return fmt.Errorf("prover and verifier transcripts diverge after an accepted proof")
	}
	if dz >= 2 {
		rec.NT(fmt.Sprint(os))
		rec.SampleNT(os)
	}
	return nil
}

// manySet: `total` openings of two polynomials, the first `atOne` of them at index z, every fifth one through the
// pointer of an earlier opening of the same polynomial.
func manySet(total, atOne, z int, kind string) openSet {
	os := openSet{Label: "many", Shape: fmt.Sprintf("forced:%d@%d/%d", atOne, z, total), Polys: []polySpec{{Kind: kind, Seed: uint64(hx.Shard() + 1)}, {Kind: "sparse", Seed: 9, Idx: []int{3, 77, 200}}}}
	for i := 0; i < total; i++ {
		o := opening{Poly: i % 2, Z: z}
		if i >= atOne {
			o.Z = (z + 1 + i) & 255
		}
		if i%5 == 4 {
			o.Share = i - 1 // reuse the pointer of the previous opening of the same polynomial
			o.Poly = (i - 2) % 2
		}
		os.Open = append(os.Open, o)
	}
	for i := range os.Open { // shared pointers must refer to an opening of the same polynomial
		if sh := os.Open[i].Share; sh > 0 {
			os.Open[i].Poly = os.Open[sh-1].Poly
		}
	}
	return os
}

// degenerateSets: legal statements that are degenerate in several dimensions at once (zero / constant polynomials, identity
// commitments, every opening identical, the empty label).
func degenerateSets() []openSet {
	var out []openSet
	for _, n := range []int{1, 2, 17, 300} {
		for k, kind := range []string{"zero", "const"} {
			os := openSet{Label: "", Shape: fmt.Sprintf("forced:degenerate:%s:%d", kind, n), Polys: []polySpec{{Kind: kind, Val: "1"}}, ShareY: (n+k)%2 == 0}
			for i := 0; i < n; i++ {
				o := opening{Poly: 0, Z: 0}
				if i > 0 && i%2 == k {
					o.Share = 1
				}
				os.Open = append(os.Open, o)
			}
			out = append(out, os)
		}
	}
	return out
}

var c01Part = hx.NewPart("C01", "complete", genC01, evalC01)

func TestC01(t *testing.T) {
	s := hx.Start(t, "C01")
	defer s.Finish()
	s.Guard(func() { Cfg() })
	// forced shapes that a drawn size rarely reaches: a multiple of 256 openings at ONE index, and opening counts around the
	// window thresholds of the verifier's MSM (49, 129, 321, 769, 1793; 4097 in the thorough tier)
	many := manySet
	forced := []openSet{many(256, 256, 7, "dense"), many(296, 256, 200, "ramp"), many(525, 512, 0, "dense"), many(257, 255, 31, "dense")}
	thresholds := []int{49, 129, 321, 769, 1793}
	if hx.Thorough() {
		thresholds = append(thresholds, 4097)
	}
	for _, th := range thresholds { // both sides of every threshold: th-1 selects the smaller window, th and th+1 the larger one
		forced = append(forced, many(th-1, 3, 100, "dense"), many(th+1, 3, 100, "ramp"))
	}
	for i, f := range forced {
		if hx.Thorough() || hx.Sharded(i) {
			f.ShareY = i%2 == 1 // equal claimed values passed through one shared *fr.Element
			c01Part.EvalCase(s, f)
		}
	}
	for i, d := range degenerateSets() {
		if hx.Thorough() || hx.Sharded(i) {
			c01Part.EvalCase(s, d)
		}
	}
	c01Part.Run(s, hx.PerShard(hx.Pick(1600, 16000)))
}

// ------------------------------------------------------------------ C03 determinism / spec conformance

type c03Case struct {
	Set    openSet `json:"set"`
	Prefix []int   `json:"prefix,omitempty"` // unrelated API calls executed on the same config before proving
	Rep2   int     `json:"rep2"`             // representation applied to every commitment for the second proving run
}

func genC03(t *rapid.T) c03Case {
	return c03Case{
		Set:    genOpenSet(t, 40, runtime.NumCPU()),
		Prefix: rapid.SliceOfN(rapid.IntRange(0, 3), 0, 3).Draw(t, "prefix"),
		Rep2:   rapid.IntRange(0, 3).Draw(t, "rep2"),
	}
}

func runPrefix(ops []int) {
	cfg := Cfg()
	for k, op := range ops {
		f := hx.FrSliceFromBig(polySpec{Kind: "dense", Seed: uint64(1000 + k)}.evals())
		switch op {
		case 0:
			_ = cfg.Commit(f)
		case 1:
			c := cfg.Commit(f)
			var z fr.Element
			z.SetUint64(uint64(300 + k))
			_, _ = ipa.CreateIPAProof(common.NewTranscript("prefix"), cfg, c, f, z)
		case 2:
			_, _ = ipa.MultiScalar(cfg.SRS[:7], f[:7])
		case 3:
			c := cfg.Commit(f)
			_, _ = multiproof.CreateMultiProof(common.NewTranscript("prefix"), cfg, []*banderwagon.Element{&c, &c}, [][]fr.Element{f, f}, []uint8{9, 200})
		}
	}
}

func evalC03(c c03Case, rec *hx.Rec) error {
	cfg := Cfg()
	ncpu := runtime.NumCPU()
	rec.Eval(1)
	labels, dz := c.Set.shapeLabels(ncpu)
	rec.Label(labels...)
	rec.Sample(c)
	b, err := c.Set.build()
	if err != nil {
		return err
	}
	// reference proof
	rtr := ref.NewTranscript(c.Set.Label)
	rproof := ref.MultiProve(hx.G, rtr, b.CsRef, b.fsBig, b.zsInt)
	want := ref.MultiSerialize(hx.G, rproof)
	wantState := rtr.Challenge([]byte("state"))

	prove := func(tag string, bb *builtSet) error {
		tr := common.NewTranscript(c.Set.Label)
		var proof *multiproof.MultiProof
		var perr error
		if e := hx.Try(func() { proof, perr = multiproof.CreateMultiProof(tr, cfg, bb.Cs, bb.fs, bb.zs) }); e != nil {
			return fmt.Errorf("%s: CreateMultiProof: %w", tag, e)
		}
		if perr != nil {
			return fmt.Errorf("%s: CreateMultiProof error %v", tag, perr)
		}
		var buf bytes.Buffer
		if e := hx.Try(func() { perr = proof.Write(&buf) }); e != nil || perr != nil {
			return fmt.Errorf("%s: Write: %v %v", tag, e, perr)
		}
		if !bytes.Equal(buf.Bytes(), want) {
			return fmt.Errorf("%s: proof bytes differ from the reference prover (n=%d, distinct z=%d, NumCPU=%d, GOMAXPROCS=%d): first difference at byte %d",
				tag, len(c.Set.Open), dz, ncpu, runtime.GOMAXPROCS(0), firstDiff(buf.Bytes(), want))
		}
		st := tr.ChallengeScalar([]byte("state"))
		if hx.FrToBig(&st).Cmp(wantState) != 0 {
			return fmt.Errorf("%s: transcript state after proving differs from the reference transcript", tag)
		}
		return nil
	}
	if e := hx.Try(func() { runPrefix(c.Prefix) }); e != nil {
		return fmt.Errorf("prefix calls: %w", e)
	}
	runNoise(c.Set.Noise, 3, true)
	if err := prove("first run", b); err != nil {
		return err
	}
	// second run: same statement, every commitment in another representation, immediately after the first
	set2 := c.Set
	set2.Open = append([]opening(nil), c.Set.Open...)
	for i := range set2.Open {
		if set2.Open[i].Share == 0 {
			set2.Open[i].Rep = c.Rep2
			set2.Open[i].Lambda = uint64(77 + i)
		}
	}
	b2, err := set2.build()
	if err != nil {
		return err
	}
	b2.fs, b2.polysFr = b.fs, b.polysFr // the very same polynomial objects the first call was given
	if err := prove("second run (same polynomial objects, re-represented commitments)", b2); err != nil {
		return err
	}
	if dz >= 2 {
		rec.NT(fmt.Sprint(c))
		rec.SampleNT(c)
	}
	if 100*len(c.Set.Open)+len(c.Set.Label) > 1024 {
		rec.Label("pending>1024B")
	}
	return nil
}

func firstDiff(a, b []byte) int {
	for i := 0; i < len(a) && i < len(b); i++ {
		if a[i] != b[i] {
			return i
		}
	}
	if len(a) != len(b) {
		return minInt(len(a), len(b))
	}
	return -1
}

var c03Multi = hx.NewPart("C03", "multiproof", genC03, evalC03)

// direct IPA proofs at in-domain and out-of-domain points

type c03IPACase struct {
	Poly  polySpec `json:"poly"`
	Point string   `json:"point"` // hex
	Rep   int      `json:"rep"`
	Label string   `json:"label"`
}

var pointClasses = []string{"0", "1", "2", "7f", "80", "fe", "ff", "100", "101", "ffffffffffffffff", "10000000000000000", "100000000000000000000000000000000"}

// montInv256 is 2^-256 mod r: a point k*montInv256 has the small integer k as its internal (Montgomery) representation.
var montInv256 = new(big.Int).ModInverse(new(big.Int).Lsh(big.NewInt(1), 256), ref.R)

func genPointHex(t *rapid.T) string {
	switch rapid.IntRange(0, 8).Draw(t, "point_class") {
	case 0, 1:
		return rapid.SampledFrom(pointClasses).Draw(t, "point_fixed")
	case 2:
		return hx.HexBig(new(big.Int).Sub(ref.R, big.NewInt(int64(rapid.IntRange(1, 3).Draw(t, "point_neg")))))
	case 3:
		return hx.HexBig(big.NewInt(int64(rapid.IntRange(0, 600).Draw(t, "point_small"))))
	case 4: // limb-aligned: a*2^64 + b*2^128 + c*2^192 + small (low 64 bits look like a domain index)
		v := big.NewInt(int64(rapid.IntRange(0, 300).Draw(t, "point_low")))
		for i, sh := range []uint{64, 128, 192} {
			k := rapid.SampledFrom([]int64{0, 0, 1, 2, 255, 256}).Draw(t, fmt.Sprintf("point_limb%d", i))
			v.Add(v, new(big.Int).Lsh(big.NewInt(k), sh))
		}
		if v.Cmp(big.NewInt(600)) <= 0 {
			v.Add(v, new(big.Int).Lsh(big.NewInt(1), 64))
		}
		return hx.HexBig(v.Mod(v, ref.R))
	case 5: // small internal (Montgomery) representation
		k := big.NewInt(int64(rapid.IntRange(0, 600).Draw(t, "point_mont")))
		return hx.HexBig(k.Mul(k, montInv256).Mod(k, ref.R))
	case 7: // a denominator of the barycentric formula becomes +-1 or 2: z = i + c/A'(i)
		i := rapid.SampledFrom([]int{0, 1, 2, 127, 128, 200, 254, 255}).Draw(t, "point_di")
		if rapid.Bool().Draw(t, "point_di_any") {
			i = rapid.IntRange(0, 255).Draw(t, "point_di_n")
		}
		return hx.HexBig(unitDenominatorPoint(i, rapid.SampledFrom([]int64{1, -1, 2}).Draw(t, "point_dc")))
	case 6: // limb-pattern internal representation
		raw := scalarSpec{Kind: "limbs", Seed: rapid.Uint64().Draw(t, "point_ms"), Digits: rapid.SliceOfN(rapid.IntRange(0, 6), 4, 4).Draw(t, "point_ml")}.value()
		return hx.HexBig(raw.Mul(raw, montInv256).Mod(raw, ref.R))
	}
	return hx.HexBig(hx.ExpandFr(rapid.Uint64().Draw(t, "point_seed"), "point", 0))
}

// unitDenominatorPoint returns z = i + c/A'(i) (A'(i) = prod_{j != i} (i - j)): the i-th barycentric denominator A'(i)(z - i) is c.
func unitDenominatorPoint(i int, c int64) *big.Int {
	d := big.NewInt(1)
	for j := 0; j < 256; j++ {
		if j != i {
			d.Mul(d, big.NewInt(int64(i-j)))
			d.Mod(d, ref.R)
		}
	}
	z := ref.FrMul(ref.FrMod(big.NewInt(c)), ref.FrInv(d))
	return ref.FrAdd(z, big.NewInt(int64(i)))
}

// forcedPoints are evaluated in every shard of C03/C04 with a shard-specific dense polynomial.
func forcedPoints() []string {
	pts := []string{"fe", "ff", "100", "101", "0", hx.HexBig(rMinus1), "10000000000000000", "10000000000000005", "1000000000000000000000000000000ff"}
	for _, k := range []int64{1, 5, 255, 256} {
		v := big.NewInt(k)
		pts = append(pts, hx.HexBig(v.Mul(v, montInv256).Mod(v, ref.R)))
	}
	pts = append(pts, hx.HexBig(unitDenominatorPoint(0, 1)), hx.HexBig(unitDenominatorPoint(255, 1)), hx.HexBig(unitDenominatorPoint(128, -1)), hx.HexBig(unitDenominatorPoint(7, 2)))
	return pts
}

func genC03IPA(t *rapid.T) c03IPACase {
	return c03IPACase{Poly: genPoly(t, "p"), Point: genPointHex(t), Rep: rapid.IntRange(0, 3).Draw(t, "rep"), Label: genLabel(t)}
}

func evalC03IPA(c c03IPACase, rec *hx.Rec) error {
	cfg := Cfg()
	rec.Eval(1)
	rec.Sample(c)
	ev := c.Poly.evals()
	f := hx.FrSliceFromBig(ev)
	var comm banderwagon.Element
	if e := hx.Try(func() { comm = cfg.Commit(f) }); e != nil {
		return e
	}
	cref := hx.Rep(hx.FromImpl(&comm), c.Rep, 99)
	z := new(big.Int).Mod(hx.BigHex(c.Point), ref.R)
	rtr := ref.NewTranscript(c.Label)
	want := ref.IPASerialize(hx.G, ref.IPAProve(hx.G, rtr, cref, ev, z))
	wantState := rtr.Challenge([]byte("state"))
	tr := common.NewTranscript(c.Label)
	var proof ipa.IPAProof
	var perr error
	if e := hx.Try(func() { proof, perr = ipa.CreateIPAProof(tr, cfg, hx.ToImpl(cref), f, hx.FrFromBig(z)) }); e != nil {
		return fmt.Errorf("CreateIPAProof: %w", e)
	}
	if perr != nil {
		return fmt.Errorf("CreateIPAProof error: %v", perr)
	}
	var buf bytes.Buffer
	if err := proof.Write(&buf); err != nil {
		return fmt.Errorf("IPAProof.Write: %v", err)
	}
	if !bytes.Equal(buf.Bytes(), want) {
		return fmt.Errorf("IPA proof bytes differ from the reference prover at point %s (first difference at byte %d)", c.Point, firstDiff(buf.Bytes(), want))
	}
	st := tr.ChallengeScalar([]byte("state"))
	if hx.FrToBig(&st).Cmp(wantState) != 0 {
		return fmt.Errorf("transcript state after CreateIPAProof differs from the reference")
	}
	if z.Cmp(big.NewInt(256)) >= 0 {
		rec.Label("ipa_out_of_domain")
		rec.NT(fmt.Sprint(c))
	} else {
		rec.Label("ipa_in_domain")
	}
	return nil
}

var c03IPA = hx.NewPart("C03", "ipa", genC03IPA, evalC03IPA)

func TestC03(t *testing.T) {
	s := hx.Start(t, "C03")
	defer s.Finish()
	s.Guard(func() { Cfg() })
	for i, pt := range forcedPoints() {
		if hx.Thorough() || (i+hx.Shard())%3 == 0 || i < 3 {
			c03IPA.EvalCase(s, c03IPACase{Poly: polySpec{Kind: "dense", Seed: uint64(1000*hx.Seed() + hx.Shard())}, Point: pt, Rep: hx.Shard() % 4, Label: "b"})
		}
	}
	// single openings whose quotient has a STRUCTURED coefficient: f is zero except f(z+1) = v, opened at z, so the
	// quotient's coefficient at z+1 is v itself and D = Commit(quotient) meets the recoding edge cases of the tables
	targets := []scalarSpec{
		{Kind: "pow2m1", N: 63}, {Kind: "pow2m1", N: 127}, {Kind: "pow2m1", N: 191}, {Kind: "pow2", N: 64}, {Kind: "pow2", N: 63},
		{Kind: "word", N: 0}, {Kind: "word", N: 1}, {Kind: "word", N: 2, Seed: 9},
		{Kind: "limbs", Digits: []int{3, 3, 0, 0}}, {Kind: "limbs", Digits: []int{2, 3, 3, 0}}, {Kind: "limbs", Digits: []int{0, 3, 0, 1}},
		{Kind: "windows", W: 8, Digits: []int{5, 5, 5, 5, 5, 5, 5, 4}}, {Kind: "windows", W: 16, Digits: []int{3, 5, 5, 5, 4}},
		{Kind: "rminus", N: 0}, {Kind: "montraw", N: 5}, {Kind: "small", N: 32768},
	}
	for i, tg := range targets {
		for j, pos := range []int{3, 100} {
			if hx.Thorough() || hx.Sharded(2*i+j) {
				set := openSet{Label: "q", Shape: "forced:structured_quotient", Polys: []polySpec{{Kind: "recipe", Idx: []int{pos}, Vals: []scalarSpec{tg}}},
					Open: []opening{{Poly: 0, Z: pos - 1}}}
				c03Multi.EvalCase(s, c03Case{Set: set, Rep2: (i + j) % 4})
			}
		}
	}
	// statements beyond the block sizes of the r^i weights, and adjacent identical openings (same commitment, same index)
	for i, n := range []int{1025, 2049, 1030} {
		if hx.Sharded(i) && (i < 2 || hx.Thorough()) {
			c03Multi.EvalCase(s, c03Case{Set: manySet(n, 3, 100, []string{"dense", "ramp"}[i%2]), Rep2: i % 4})
		}
	}
	for i, f := range []openSet{manySet(256, 256, 7, "dense"), manySet(525, 512, 0, "dense"), manySet(296, 256, 200, "ramp"), manySet(257, 255, 31, "dense")} {
		if hx.Sharded(i+7) || hx.Thorough() { // exactly 256 / 512 / 255 openings at ONE index, interleaved with others
			c03Multi.EvalCase(s, c03Case{Set: f, Rep2: i % 4})
		}
	}
	if hx.Sharded(3) || hx.Thorough() {
		dup := openSet{Label: "dup", Shape: "forced:adjacent_duplicates", Polys: []polySpec{{Kind: "dense", Seed: uint64(hx.Seed())}, {Kind: "ramp", Seed: 3}},
			Open: []opening{{Poly: 0, Z: 5}, {Poly: 0, Z: 5}, {Poly: 1, Z: 5}, {Poly: 0, Z: 5, Share: 1}, {Poly: 0, Z: 5, Rep: 3, Lambda: 9}, {Poly: 1, Z: 6}, {Poly: 1, Z: 6}}}
		c03Multi.EvalCase(s, c03Case{Set: dup, Rep2: 1})
	}
	for i, d := range degenerateSets() {
		if hx.Thorough() || hx.Sharded(i+5) {
			c03Multi.EvalCase(s, c03Case{Set: d, Rep2: i % 4})
		}
	}
	c03Multi.Run(s, hx.PerShard(hx.Pick(480, 6400)))
	c03IPA.Run(s, hx.PerShard(hx.Pick(160, 2400)))
}
