//go:build verif

package props

import (
	"fmt"
	"math/big"

	"pgregory.net/rapid"

	"verif/harness/hx"
	"verif/harness/ref"
)

// scalarSpec describes a scalar by recipe so that cases stay small and shrink well.
type scalarSpec struct {
	Kind   string `json:"k"`
	Seed   uint64 `json:"s,omitempty"`
	W      int    `json:"w,omitempty"` // window width of a "windows" recipe
	Digits []int  `json:"d,omitempty"` // per window / per limb class codes, low to high
	N      int    `json:"n,omitempty"` // exponent of pow2 kinds, small value
}

// window digit classes: 0:0  1:1  2:half-1  3:half  4:half+1  5:max (2^w-1)  6:random  7:max-1
func windowDigit(w, class int, seed uint64, pos int) *big.Int {
	half := new(big.Int).Lsh(big.NewInt(1), uint(w-1))
	max := new(big.Int).Sub(new(big.Int).Lsh(big.NewInt(1), uint(w)), big.NewInt(1))
	switch class {
	case 0:
		return new(big.Int)
	case 1:
		return big.NewInt(1)
	case 2:
		return new(big.Int).Sub(half, big.NewInt(1))
	case 3:
		return half
	case 4:
		return new(big.Int).Add(half, big.NewInt(1))
	case 5:
		return max
	case 7:
		return new(big.Int).Sub(max, big.NewInt(1))
	}
	v := hx.Expand(seed, "digit", pos)
	return v.And(v, max)
}

// limb classes: 0:0 1:1 2:2^63 3:2^64-1 4:random 5:2^32 6:0xffff
func limbValue(class int, seed uint64, pos int) *big.Int {
	switch class {
	case 0:
		return new(big.Int)
	case 1:
		return big.NewInt(1)
	case 2:
		return new(big.Int).Lsh(big.NewInt(1), 63)
	case 3:
		return new(big.Int).SetUint64(^uint64(0))
	case 5:
		return new(big.Int).Lsh(big.NewInt(1), 32)
	case 6:
		return big.NewInt(0xffff)
	}
	v := hx.Expand(seed, "limb", pos)
	return v.And(v, new(big.Int).SetUint64(^uint64(0)))
}

// value returns the scalar in [0, r).
func (s scalarSpec) value() *big.Int {
	v := new(big.Int)
	switch s.Kind {
	case "zero":
	case "one":
		v.SetInt64(1)
	case "small":
		v.SetInt64(int64(s.N))
	case "rminus":
		v.Sub(ref.R, big.NewInt(int64(1+s.N)))
	case "pow2":
		v.Lsh(big.NewInt(1), uint(s.N%253))
	case "pow2m1":
		v.Sub(new(big.Int).Lsh(big.NewInt(1), uint(1+s.N%252)), big.NewInt(1))
	case "uniform":
		v = hx.ExpandFr(s.Seed, "uniform", 0)
	case "word": // one 64-bit word with the top bit set (N selects 2^63, 2^64-1 or a seed-derived word)
		switch s.N % 3 {
		case 0:
			v.Lsh(big.NewInt(1), 63)
		case 1:
			v.SetUint64(^uint64(0))
		default:
			v.And(hx.Expand(s.Seed, "word", 0), new(big.Int).SetUint64(^uint64(0)))
			v.SetBit(v, 63, 1)
		}
	case "montraw": // small internal (Montgomery) representation: N * 2^-256 mod r
		v.Mul(big.NewInt(int64(s.N)), new(big.Int).ModInverse(new(big.Int).Lsh(big.NewInt(1), 256), ref.R))
	case "limbs":
		for i := 3; i >= 0; i-- {
			c := 0
			if i < len(s.Digits) {
				c = s.Digits[i]
			}
			v.Lsh(v, 64)
			v.Or(v, limbValue(c, s.Seed, i))
		}
	case "windows":
		nw := (256 + s.W - 1) / s.W
		for i := nw - 1; i >= 0; i-- {
			c := 0
			if i < len(s.Digits) {
				c = s.Digits[i]
			}
			v.Lsh(v, uint(s.W))
			v.Or(v, windowDigit(s.W, c, s.Seed, i))
		}
		v.And(v, new(big.Int).Sub(new(big.Int).Lsh(big.NewInt(1), 256), big.NewInt(1)))
	default:
		panic(hx.Inconclusive{Msg: "unknown scalar kind " + s.Kind})
	}
	return v.Mod(v, ref.R)
}

func (s scalarSpec) label() string {
	if s.Kind == "windows" {
		return fmt.Sprintf("windows/w=%d", s.W)
	}
	return s.Kind
}

var scalarKinds = []string{"word", "montraw", "zero", "one", "small", "small", "rminus", "pow2", "pow2m1", "uniform", "uniform", "limbs", "limbs", "windows", "windows", "windows"}

// genScalar draws a scalar recipe. widths lists the window widths whose digit boundaries matter to the caller.
func genScalar(t *rapid.T, label string, widths []int) scalarSpec {
	s := scalarSpec{Kind: rapid.SampledFrom(scalarKinds).Draw(t, label+"_kind")}
	switch s.Kind {
	case "word":
		s.N = rapid.IntRange(0, 2).Draw(t, label+"_n")
		s.Seed = rapid.Uint64().Draw(t, label+"_seed")
	case "small", "montraw":
		s.N = rapid.IntRange(2, 70000).Draw(t, label+"_n")
	case "rminus":
		s.N = rapid.IntRange(0, 3).Draw(t, label+"_n")
	case "pow2", "pow2m1":
		s.N = rapid.IntRange(0, 252).Draw(t, label+"_n")
	case "uniform":
		s.Seed = rapid.Uint64().Draw(t, label+"_seed")
	case "limbs":
		s.Seed = rapid.Uint64().Draw(t, label+"_seed")
		s.Digits = rapid.SliceOfN(rapid.IntRange(0, 6), 4, 4).Draw(t, label+"_limbs")
	case "windows":
		s.Seed = rapid.Uint64().Draw(t, label+"_seed")
		s.W = rapid.SampledFrom(widths).Draw(t, label+"_w")
		nw := (256 + s.W - 1) / s.W
		mode := rapid.IntRange(0, 3).Draw(t, label+"_mode")
		s.Digits = make([]int, nw)
		switch mode {
		case 0: // carry chain of drawn length from a drawn start, ending with a half/half+1 digit
			start := rapid.IntRange(0, nw-1).Draw(t, label+"_start")
			length := rapid.IntRange(1, nw).Draw(t, label+"_len")
			for i := start; i < nw && i < start+length; i++ {
				s.Digits[i] = 5
			}
			s.Digits[start] = rapid.SampledFrom([]int{3, 4, 5, 7}).Draw(t, label+"_first")
		case 1: // every window from the class list
			for i := range s.Digits {
				s.Digits[i] = rapid.IntRange(0, 7).Draw(t, label+"_d")
			}
		case 2: // mostly random with a few boundary digits
			for i := range s.Digits {
				s.Digits[i] = 6
			}
			for j := 0; j < 3; j++ {
				s.Digits[rapid.IntRange(0, nw-1).Draw(t, label+"_pos")] = rapid.SampledFrom([]int{2, 3, 4, 5}).Draw(t, label+"_b")
			}
		default: // a single hot window
			s.Digits[rapid.IntRange(0, nw-1).Draw(t, label+"_pos")] = rapid.IntRange(1, 7).Draw(t, label+"_b")
		}
	}
	return s
}
