//go:build verif && verif_elem

package props

import (
	"fmt"
	"math/big"
	"sync"

	"github.com/crate-crypto/go-ipa/bandersnatch/fr"
	"github.com/crate-crypto/go-ipa/banderwagon"
	"pgregory.net/rapid"

	"verif/harness/hx"
	"verif/harness/ref"
)

// The pool engine: a history of API calls grows a pool of go-ipa elements computed
// through many different code paths and representations. It is shared by C07, C11
// and C19; the oracle always works on the raw coordinates read through the hook.

type act struct {
	Op   string       `json:"op"`
	A    int          `json:"a,omitempty"`
	B    int          `json:"b,omitempty"`
	S    *scalarSpec  `json:"s,omitempty"`
	T    *scalarSpec  `json:"t,omitempty"`
	Idx  []int        `json:"idx,omitempty"`
	Ss   []scalarSpec `json:"ss,omitempty"`
	Seed uint64       `json:"seed,omitempty"`
	N    int          `json:"n,omitempty"`
}

type history struct {
	Acts  []act  `json:"acts"`
	Noise uint64 `json:"noise,omitempty"`
}

var poolOps = []string{
	"small", "small", "small_ratio", "y_near_half", "crs", "add", "add", "sub", "double", "neg", "mul", "mul", "msm", "commit", "precomp_custom", "redecode", "unc_trusted",
	"normalize", "batchnorm", "batchnorm_all", "rescale", "flip", "torsion", "pqq", "dist", "self_sub", "set", "setidentity", "mul_edge", "neg_pair",
}

// results reports how many pool slots an action appends.
func (a act) results() int {
	switch a.Op {
	case "normalize", "batchnorm", "batchnorm_all":
		return 0
	case "dist", "neg_pair":
		return 2
	}
	return 1
}

func genHistory(t *rapid.T, maxActs int) history {
	n := 2 // slots 0 and 1 are the generator and the identity
	k := rapid.IntRange(3, maxActs).Draw(t, "nacts")
	h := history{Noise: noiseSeedFrom(rapid.Uint64().Draw(t, "noise"))}
	widths := []int{2, 8, 16}
	for i := 0; i < k; i++ {
		a := act{Op: rapid.SampledFrom(poolOps).Draw(t, "op")}
		pick := func(l string) int { return rapid.IntRange(0, n-1).Draw(t, l) }
		switch a.Op {
		case "small":
			a.N = rapid.IntRange(0, 40).Draw(t, "k")
		case "small_ratio":
			a.N = rapid.IntRange(0, 899).Draw(t, "ratio")
		case "y_near_half":
			a.N = rapid.IntRange(0, 100000).Draw(t, "k")
			a.Seed = rapid.Uint64Range(0, 7).Draw(t, "variant")
		case "crs":
			a.N = rapid.IntRange(0, 255).Draw(t, "i")
		case "add", "sub", "pqq":
			a.A, a.B = pick("a"), pick("b")
		case "double", "neg", "redecode", "unc_trusted", "normalize", "flip", "torsion", "self_sub", "set", "neg_pair":
			a.A = pick("a")
		case "rescale":
			a.A, a.Seed = pick("a"), rapid.Uint64().Draw(t, "lambda")
		case "mul":
			a.A = pick("a")
			s := genScalar(t, "s", widths)
			a.S = &s
		case "mul_edge":
			a.A = pick("a")
			a.N = rapid.IntRange(0, len(glvEdgeScalars())-1).Draw(t, "edge")
		case "dist":
			a.A = pick("a")
			s, u := genScalar(t, "s", widths), genScalar(t, "t", widths)
			a.S, a.T = &s, &u
		case "msm":
			m := rapid.IntRange(0, 6).Draw(t, "m")
			for j := 0; j < m; j++ {
				a.Idx = append(a.Idx, pick("p"))
				a.Ss = append(a.Ss, genScalar(t, "ms", widths))
			}
			a.N = rapid.SampledFrom([]int{0, 1, 2, 16, 100}).Draw(t, "nbtasks")
		case "commit":
			m := rapid.IntRange(0, 4).Draw(t, "m")
			for j := 0; j < m; j++ {
				a.Idx = append(a.Idx, rapid.IntRange(0, 255).Draw(t, "pos"))
				a.Ss = append(a.Ss, genScalar(t, "cs", widths))
			}
		case "precomp_custom":
			a.N = rapid.IntRange(0, 7).Draw(t, "pattern")
			s, u := genScalar(t, "s", widths), genScalar(t, "t", widths)
			a.S, a.T = &s, &u
		case "batchnorm":
			m := rapid.IntRange(0, 6).Draw(t, "m")
			for j := 0; j < m; j++ {
				a.Idx = append(a.Idx, pick("p"))
			}
		}
		h.Acts = append(h.Acts, a)
		n += a.results()
	}
	return h
}

// glvEdgeScalars: scalars around the GLV decomposition's special values.
func glvEdgeScalars() []*big.Int {
	lambda, _ := new(big.Int).SetString("8913659658109529928382530854484400854125314752504019737736543920008458395397", 10)
	r := new(big.Int).Set(rMinus1)
	r.Add(r, big.NewInt(1))
	out := []*big.Int{big.NewInt(0), big.NewInt(1), big.NewInt(2), new(big.Int).Sub(r, big.NewInt(1)), new(big.Int).Sub(r, big.NewInt(2))}
	for _, d := range []int64{-1, 0, 1} {
		out = append(out, new(big.Int).Mod(new(big.Int).Add(lambda, big.NewInt(d)), r))
		out = append(out, new(big.Int).Mod(new(big.Int).Sub(r, new(big.Int).Add(lambda, big.NewInt(d))), r))
	}
	for _, sh := range []uint{63, 64, 65, 126, 127, 128, 129, 192, 252} {
		p2 := new(big.Int).Lsh(big.NewInt(1), sh)
		out = append(out, new(big.Int).Mod(p2, r), new(big.Int).Mod(new(big.Int).Sub(p2, big.NewInt(1)), r))
	}
	for j := int64(2); j <= 5; j++ { // small multiples of lambda: first GLV component zero
		jl := new(big.Int).Mod(new(big.Int).Mul(lambda, big.NewInt(j)), r)
		out = append(out, jl, new(big.Int).Sub(r, jl), new(big.Int).Mod(new(big.Int).Add(jl, big.NewInt(j)), r))
	}
	for _, a := range []uint{0, 1, 31, 63} { // the same bit position set in several limbs
		b := new(big.Int).Lsh(big.NewInt(1), a)
		for _, shifts := range [][]uint{{64}, {128}, {64, 128}, {192}, {64, 192}} {
			v := new(big.Int).Set(b)
			for _, sh := range shifts {
				v.Add(v, new(big.Int).Lsh(b, sh))
			}
			out = append(out, v.Mod(v, r))
		}
	}
	half := new(big.Int).Rsh(r, 1)
	out = append(out, half, new(big.Int).Add(half, big.NewInt(1)))
	sq := new(big.Int).Sqrt(r)
	out = append(out, sq, new(big.Int).Add(sq, big.NewInt(1)), new(big.Int).Mul(sq, big.NewInt(2)))
	return out
}

// smallRatioPoint searches, from a start value derived from n, a subgroup point whose x/y is a SMALL integer t
// (below 2^64, 2^128 or 2^192): with x = t*y the curve equation is a quadratic in y^2.
func smallRatioPoint(n int) (hx.RPt, bool) {
	base := big.NewInt(int64(1 + n%50))
	dir := int64(1)
	switch (n / 50) % 9 {
	case 1:
		base.Add(base, new(big.Int).Lsh(big.NewInt(1), 63))
	case 2:
		base.Add(base, new(big.Int).Lsh(big.NewInt(int64(1+n%7)), 127))
	case 3:
		base.Add(base, new(big.Int).Lsh(big.NewInt(int64(1+n%5)), 190))
	case 4, 5, 6: // just BELOW a multiple of the scalar-field modulus: t = m*r - j (the reduction mod r wraps to -j)
		base.Sub(new(big.Int).Mul(ref.R, big.NewInt(int64((n/50)%9-3))), big.NewInt(int64(1+n%3)))
		dir = -1
	case 7: // just above a multiple of r
		base.Add(new(big.Int).Mul(ref.R, big.NewInt(int64(1+n%3))), big.NewInt(int64(n%2)))
	case 8: // just below the base-field modulus
		base.Sub(ref.P, base)
		dir = -1
	}
	P := ref.P
	for k := int64(0); k < 400; k++ {
		t := new(big.Int).Add(base, big.NewInt(dir*k))
		t2 := new(big.Int).Mul(t, t)
		t2.Mod(t2, P)
		// d t^2 Y^2 - (a t^2 + 1) Y + 1 = 0 with Y = y^2
		A := new(big.Int).Mul(ref.CurveD, t2)
		A.Mod(A, P)
		B := new(big.Int).Mul(ref.CurveA, t2)
		B.Add(B, big.NewInt(1)).Mod(B, P)
		disc := new(big.Int).Mul(B, B)
		disc.Sub(disc, new(big.Int).Lsh(A, 2)).Mod(disc, P)
		sq := new(big.Int).ModSqrt(disc, P)
		if sq == nil || A.Sign() == 0 {
			continue
		}
		inv2A := new(big.Int).ModInverse(new(big.Int).Lsh(A, 1), P)
		for _, sgn := range []int64{1, -1} {
			Y := new(big.Int).Add(B, new(big.Int).Mul(big.NewInt(sgn), sq))
			Y.Mul(Y, inv2A).Mod(Y, P)
			y := new(big.Int).ModSqrt(Y, P)
			if y == nil || y.Sign() == 0 {
				continue
			}
			x := new(big.Int).Mul(t, y)
			x.Mod(x, P)
			p := hx.G.FromAffine(x, y)
			if hx.G.IsValid(p) && ref.SubgroupOK(x) {
				return p, true
			}
		}
	}
	return hx.RPt{}, false
}

var (
	customPrecompOnce sync.Once
	customPrecompVal  banderwagon.MSMPrecomp
	customPrecompErr  error
)

// customPrecomp builds (once per process) a table MSM over a caller-chosen basis: the CRS with positions (0,1), (2,3),
// (5,6) holding the SAME point and (7,8) holding opposite points.
func customPrecomp() (*banderwagon.MSMPrecomp, error) {
	customPrecompOnce.Do(func() {
		basis := append([]banderwagon.Element(nil), Cfg().SRS...)
		basis[1], basis[3], basis[6] = basis[0], basis[2], basis[5]
		basis[8].Neg(&basis[7])
		var nerr error
		if perr := hx.Try(func() { customPrecompVal, nerr = banderwagon.NewPrecompMSM(basis) }); perr != nil {
			nerr = perr
		}
		customPrecompErr = nerr
	})
	return &customPrecompVal, customPrecompErr
}

var (
	yNearHalfOnce sync.Once
	yNearHalfTab  [][2]*big.Int
)

// yNearHalfTable: (x, y) of 96 subgroup points whose ordinate is next to p/2, with and without limb-aligned offsets
// (computed once per process: the search costs a few modular square roots per entry).
func yNearHalfTable() [][2]*big.Int {
	yNearHalfOnce.Do(func() {
		for k := 0; len(yNearHalfTab) < 96 && k < 4000; k++ {
			cand := c17Case{Mode: "point", Kind: "y_near_half", E: uint32(37 * k), Seed: uint64(k % 4)}.value()
			if cand.Sign() != 0 && ref.SubgroupOK(cand) {
				if y := ref.YFromX(cand); y != nil {
					yNearHalfTab = append(yNearHalfTab, [2]*big.Int{cand, y})
				}
			}
		}
		if len(yNearHalfTab) == 0 {
			panic(hx.Inconclusive{Msg: "no subgroup point with an ordinate next to p/2 found"})
		}
	})
	return yNearHalfTab
}

var twoTorsionBytes = make([]byte, 32) // decodes to (0,-1)

// runPool executes the history on go-ipa. Every produced element must be a valid curve point.
func runPool(h history, rec *hx.Rec) ([]*banderwagon.Element, error) {
	runNoise(h.Noise, 3, true)
	g, id := banderwagon.Generator, banderwagon.Identity
	pool := []*banderwagon.Element{&g, &id}
	add := func(op string, e *banderwagon.Element) error {
		if !hx.G.IsValid(hx.FromImpl(e)) {
			in := e.VerifInner()
			return fmt.Errorf("operation %q produced an invalid element (X=%v Y=%v Z=%v) from valid inputs", op, in.X.String(), in.Y.String(), in.Z.String())
		}
		pool = append(pool, e)
		return nil
	}
	for step, a := range h.Acts {
		rec.Label("op=" + a.Op)
		var err error
		perr := hx.Try(func() {
			n := len(pool)
			A, B := pool[a.A%n], pool[a.B%n]
			e := new(banderwagon.Element)
			switch a.Op {
			case "small":
				s := hx.FrFromBig(big.NewInt(int64(a.N)))
				e.ScalarMul(&banderwagon.Generator, &s)
				err = add(a.Op, e)
			case "small_ratio":
				if p, ok := smallRatioPoint(a.N); ok {
					b := hx.G.Compress(p)
					if derr := e.SetBytes(b[:]); derr != nil { // enters go-ipa through its own untrusted decoder
						err = fmt.Errorf("decoding a valid subgroup point with a small x/y failed: %v", derr)
						return
					}
				} else {
					*e = banderwagon.Generator
				}
				err = add(a.Op, e)
			case "y_near_half": // a subgroup element whose affine y is one of the values nearest to p/2 (its negative shares the upper limbs)
				tab := yNearHalfTable()
				ent := tab[(a.N+int(a.Seed%4)*17)%len(tab)]
				y := ent[1]
				if a.Seed >= 4 {
					y = new(big.Int).Sub(ref.P, y)
				}
				raw := append(be32any(ent[0]), be32any(y)...)
				if derr := e.SetBytesUncompressed(raw, true); derr != nil {
					err = fmt.Errorf("trusted load of a valid point failed: %v", derr)
					return
				}
				err = add(a.Op, e)
			case "crs":
				*e = Cfg().SRS[a.N%256]
				err = add(a.Op, e)
			case "add":
				err = add(a.Op, e.Add(A, B))
			case "sub":
				err = add(a.Op, e.Sub(A, B))
			case "double":
				err = add(a.Op, e.Double(A))
			case "neg":
				err = add(a.Op, e.Neg(A))
			case "mul":
				s := hx.FrFromBig(a.S.value())
				err = add(a.Op, e.ScalarMul(A, &s))
			case "mul_edge":
				s := hx.FrFromBig(glvEdgeScalars()[a.N%len(glvEdgeScalars())])
				err = add(a.Op, e.ScalarMul(A, &s))
			case "msm":
				pts := make([]banderwagon.Element, len(a.Idx))
				scs := make([]fr.Element, len(a.Idx))
				for j := range a.Idx {
					pts[j] = *pool[a.Idx[j]%n]
					scs[j] = hx.FrFromBig(a.Ss[j].value())
				}
				e.SetIdentity()
				if _, merr := e.MultiExp(pts, scs, banderwagon.MultiExpConfig{NbTasks: a.N, ScalarsMont: true}); merr != nil {
					err = fmt.Errorf("MultiExp: %v", merr)
					return
				}
				err = add(a.Op, e)
			case "precomp_custom": // a caller-built table MSM over a basis with repeated / opposite points; the running sum passes through the identity
				pm, perr := customPrecomp()
				if perr != nil {
					err = fmt.Errorf("NewPrecompMSM over a legal custom basis failed: %v", perr)
					return
				}
				vec := make([]fr.Element, 256)
				sv, tv := a.S.value(), a.T.value()
				i0 := []int{0, 2, 5, 7, 0, 5, 2, 7}[a.N%8] // (i0, i0+1) hold the same point, or opposite points for i0 = 7
				second := ref.FrNeg(sv)
				if i0 == 7 {
					second = sv
				}
				vec[i0], vec[i0+1] = hx.FrFromBig(sv), hx.FrFromBig(second)
				if a.N%8 >= 4 {
					vec[i0+2+a.N%3] = hx.FrFromBig(tv)
				} else {
					vec[200+a.N] = hx.FrFromBig(tv)
				}
				*e = pm.MSM(vec)
				err = add(a.Op, e)
			case "commit":
				vec := make([]fr.Element, 256)
				for j := range a.Idx {
					vec[a.Idx[j]%256] = hx.FrFromBig(a.Ss[j].value())
				}
				*e = Cfg().Commit(vec)
				err = add(a.Op, e)
			case "redecode":
				b := A.Bytes()
				if derr := e.SetBytes(b[:]); derr != nil {
					err = fmt.Errorf("decoding P.Bytes() failed: %v (bytes %x)", derr, b)
					return
				}
				err = add(a.Op, e)
			case "unc_trusted":
				b := A.BytesUncompressedTrusted()
				if derr := e.SetBytesUncompressed(b[:], true); derr != nil {
					err = fmt.Errorf("trusted decoding of BytesUncompressedTrusted() failed: %v", derr)
					return
				}
				err = add(a.Op, e)
			case "normalize":
				if a.A%n < 2 {
					return // never touch the package-level copies' slots in place... they are private copies, but keep 0/1 canonical
				}
				if nerr := A.Normalize(); nerr != nil {
					err = fmt.Errorf("Normalize of a valid element failed: %v", nerr)
				}
			case "batchnorm":
				var list []*banderwagon.Element
				for _, j := range a.Idx {
					if j%n >= 2 {
						list = append(list, pool[j%n])
					}
				}
				if nerr := banderwagon.BatchNormalize(list); nerr != nil {
					err = fmt.Errorf("BatchNormalize of valid elements failed: %v", nerr)
				}
			case "batchnorm_all": // every slot in one call (more distinct pointers than worker goroutines)
				var list []*banderwagon.Element
				list = append(list, pool[2:]...)
				if nerr := banderwagon.BatchNormalize(list); nerr != nil {
					err = fmt.Errorf("BatchNormalize of %d valid elements failed: %v", len(list), nerr)
				}
			case "rescale":
				x := hx.ToImpl(hx.Rep(hx.FromImpl(A), 1, a.Seed))
				err = add(a.Op, &x)
			case "flip":
				x := hx.ToImpl(hx.Flip(hx.FromImpl(A)))
				err = add(a.Op, &x)
			case "torsion":
				var t2 banderwagon.Element
				if derr := t2.SetBytes(twoTorsionBytes); derr != nil {
					err = fmt.Errorf("decoding the all-zero string failed: %v", derr)
					return
				}
				err = add(a.Op, e.Add(A, &t2))
			case "pqq":
				e.Add(A, B)
				err = add(a.Op, e.Sub(e, B))
			case "dist":
				s, u := a.S.value(), a.T.value()
				sf, uf := hx.FrFromBig(s), hx.FrFromBig(u)
				var st fr.Element
				st.Add(&sf, &uf)
				e.ScalarMul(A, &st)
				if err = add(a.Op, e); err != nil {
					return
				}
				var e1, e2 banderwagon.Element
				e1.ScalarMul(A, &sf)
				e2.ScalarMul(A, &uf)
				e3 := new(banderwagon.Element)
				err = add(a.Op, e3.Add(&e1, &e2))
			case "self_sub":
				err = add(a.Op, e.Sub(A, A))
			case "neg_pair": // -P computed two ways
				e.Neg(A)
				if err = add(a.Op, e); err != nil {
					return
				}
				m1 := hx.FrFromBig(rMinus1)
				e2 := new(banderwagon.Element)
				err = add(a.Op, e2.ScalarMul(A, &m1))
			case "set":
				err = add(a.Op, e.Set(A))
			case "setidentity":
				*e = *A
				err = add(a.Op, e.SetIdentity())
			default:
				panic(hx.Inconclusive{Msg: "unknown pool op " + a.Op})
			}
		})
		if perr != nil {
			return pool, fmt.Errorf("step %d (%s): %w", step, a.Op, perr)
		}
		if err != nil {
			return pool, fmt.Errorf("step %d: %w", step, err)
		}
	}
	return pool, nil
}
