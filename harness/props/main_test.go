//go:build verif

// Package props holds one generated check per property of
// /verif/properties.jsonl. Every TestCxx opens a session (hx.Start), runs its
// parts, and finishes the session, which writes the shard record, the status
// file and, on an oracle disagreement, the replay file.
package props

import (
	"fmt"
	"os"
	"testing"

	"verif/harness/hx"
)

// TestReplay re-evaluates the replay file named by VERIF_REPLAY without rapid.
func TestReplay(t *testing.T) {
	path := os.Getenv("VERIF_REPLAY")
	if path == "" {
		t.Skip("VERIF_REPLAY not set")
	}
	rf, verr, err := hx.Replay(path)
	if err != nil {
		fmt.Printf("REPLAY-INCONCLUSIVE %v\n", err)
		t.Fatalf("inconclusive: %v", err)
	}
	if verr != nil {
		fmt.Printf("REPLAY-VIOLATION property=%s part=%s: %v\n", rf.Property, rf.Part, verr)
		return
	}
	fmt.Printf("REPLAY-PASS property=%s part=%s\n", rf.Property, rf.Part)
}
