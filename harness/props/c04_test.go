//go:build verif && verif_elem

package props

import (
	"fmt"
	"math/big"
	"testing"

	"github.com/crate-crypto/go-ipa/bandersnatch/fr"
	"github.com/crate-crypto/go-ipa/banderwagon"
	"github.com/crate-crypto/go-ipa/common"
	"github.com/crate-crypto/go-ipa/ipa"
	"pgregory.net/rapid"

	"verif/harness/hx"
	"verif/harness/ref"
)

// C04 — IPA opens the committed polynomial at any field point, in or outside the domain.

type c04Case struct {
	Poly    polySpec `json:"poly"`
	Point   string   `json:"point"`
	Label   string   `json:"label"`
	Results []string `json:"results"` // kinds of claimed results to test besides the correct one
	Seed    uint64   `json:"seed"`
	Noise   uint64   `json:"noise,omitempty"`
}

var c04ResultKinds = []string{"plus1", "minus1", "zero", "neg", "neighbour_lo", "neighbour_hi", "uniform", "double", "point_itself", "correct"}

func genC04(t *rapid.T) c04Case {
	return c04Case{
		Poly:    genPoly(t, "p"),
		Point:   genPointHex(t),
		Label:   genLabel(t),
		Results: rapid.SliceOfN(rapid.SampledFrom(c04ResultKinds), 3, 6).Draw(t, "results"),
		Seed:    rapid.Uint64().Draw(t, "seed"),
		Noise:   noiseSeedFrom(rapid.Uint64().Draw(t, "noise")),
	}
}

func evalC04(c c04Case, rec *hx.Rec) error {
	cfg := Cfg()
	rec.Sample(c)
	ev := c.Poly.evals()
	f := hx.FrSliceFromBig(ev)
	z := new(big.Int).Mod(hx.BigHex(c.Point), ref.R)
	want := ref.EvalAt(ev, z)
	inDomain := z.Cmp(big.NewInt(256)) < 0
	if inDomain && want.Cmp(ev[z.Int64()]) != 0 {
		panic(hx.Inconclusive{Msg: "reference evaluation inside the domain is not the evaluation itself"})
	}
	runNoise(c.Noise, 3, true)
	// the caller keeps its polynomials back to back in one array: f is the first row, a second polynomial follows it
	rows := make([]fr.Element, 512)
	copy(rows, f)
	g := hx.FrSliceFromBig(polySpec{Kind: "ramp", Seed: c.Seed}.evals())
	copy(rows[256:], g)
	f = rows[:256]
	var comm, commNext banderwagon.Element
	if e := hx.Try(func() { comm = cfg.Commit(f); commNext = cfg.Commit(rows[256:]) }); e != nil {
		return e
	}
	var proof ipa.IPAProof
	var perr error
	if e := hx.Try(func() { proof, perr = ipa.CreateIPAProof(common.NewTranscript(c.Label), cfg, comm, f, hx.FrFromBig(z)) }); e != nil {
		return fmt.Errorf("CreateIPAProof at %s: %w", c.Point, e)
	}
	if perr != nil {
		return fmt.Errorf("CreateIPAProof at %s: error %v", c.Point, perr)
	}
	rec.Eval(1)
	// the reference verifier must accept the proof for p(point)
	rp := ref.IPAProof[hx.FE]{A: hx.FrToBig(&proof.A_scalar)}
	for i := range proof.L {
		rp.L = append(rp.L, hx.FromImpl(&proof.L[i]))
		rp.R = append(rp.R, hx.FromImpl(&proof.R[i]))
	}
	if ok, err := ref.IPAVerify(hx.G, ref.NewTranscript(c.Label), hx.FromImpl(&comm), rp, z, want); !ok || err != nil {
		return fmt.Errorf("the reference verifier rejects go-ipa's proof at point %s for result p(point) (%v, %v)", c.Point, ok, err)
	}
	if c.Seed%4 == 0 { // the row stored right behind f, committed before f was opened, still opens correctly
		var p2 ipa.IPAProof
		var p2err error
		var ok2 bool
		w2 := ref.EvalAt(hx.FrSliceToBig(g), z)
		if e := hx.Try(func() {
			p2, p2err = ipa.CreateIPAProof(common.NewTranscript(c.Label), cfg, commNext, rows[256:], hx.FrFromBig(z))
			if p2err == nil {
				ok2, p2err = ipa.CheckIPAProof(common.NewTranscript(c.Label), cfg, commNext, p2, hx.FrFromBig(z), hx.FrFromBig(w2))
			}
		}); e != nil {
			return e
		}
		if p2err != nil || !ok2 {
			return fmt.Errorf("the polynomial stored behind the first one in the caller's array no longer opens to p(point) after the first one was opened at %s (ok=%v err=%v)", c.Point, ok2, p2err)
		}
		rec.Label("second_row_of_one_array")
	}
	zi := int(new(big.Int).Mod(z, big.NewInt(256)).Int64())
	candidates := map[string]*big.Int{"correct": want}
	for _, k := range c.Results {
		var v *big.Int
		switch k {
		case "plus1":
			v = ref.FrAdd(want, big.NewInt(1))
		case "minus1":
			v = ref.FrSub(want, big.NewInt(1))
		case "zero":
			v = new(big.Int)
		case "neg":
			v = ref.FrNeg(want)
		case "neighbour_lo":
			v = ev[(zi+255)&255]
		case "neighbour_hi":
			v = ev[(zi+1)&255]
		case "uniform":
			v = hx.ExpandFr(c.Seed, "c04res", 0)
		case "double":
			v = ref.FrAdd(want, want)
		case "point_itself":
			v = z
		case "correct":
			v = want
		}
		candidates[k] = v
	}
	for k, v := range candidates {
		expect := v.Cmp(want) == 0
		var ok bool
		var verr error
		if e := hx.Try(func() {
			ok, verr = ipa.CheckIPAProof(common.NewTranscript(c.Label), cfg, comm, proof, hx.FrFromBig(z), hx.FrFromBig(v))
		}); e != nil {
			return fmt.Errorf("CheckIPAProof at %s: %w", c.Point, e)
		}
		rec.Eval(1)
		if verr != nil {
			return fmt.Errorf("CheckIPAProof at %s (%s): error %v", c.Point, k, verr)
		}
		if ok != expect {
			return fmt.Errorf("CheckIPAProof at point %s with result kind %q (%s): got %v, but p(point)=%s so expected %v",
				c.Point, k, v.Text(16), ok, want.Text(16), expect)
		}
		if expect {
			rec.Label("verdict:accept")
		} else {
			rec.Label("verdict:reject")
		}
	}
	// the same point again on the same configuration: prove a second time, verify both proofs once more
	var proof2 ipa.IPAProof
	if e := hx.Try(func() {
		proof2, perr = ipa.CreateIPAProof(common.NewTranscript(c.Label), cfg, comm, f, hx.FrFromBig(z))
	}); e != nil || perr != nil {
		return fmt.Errorf("second CreateIPAProof at %s: %v %v", c.Point, e, perr)
	}
	for i, pr := range []ipa.IPAProof{proof2, proof} {
		var ok bool
		var verr error
		if e := hx.Try(func() {
			ok, verr = ipa.CheckIPAProof(common.NewTranscript(c.Label), cfg, comm, pr, hx.FrFromBig(z), hx.FrFromBig(want))
		}); e != nil {
			return e
		}
		rec.Eval(1)
		if !ok || verr != nil {
			return fmt.Errorf("after proving twice at point %s, proof #%d for result p(point) is rejected (%v, %v): results depend on earlier calls", c.Point, 2-i, ok, verr)
		}
	}
	boundary := z.Cmp(big.NewInt(254)) >= 0 && z.Cmp(big.NewInt(257)) <= 0
	switch {
	case boundary:
		rec.Label("point:boundary254..257")
	case inDomain:
		rec.Label("point:in_domain")
	default:
		rec.Label("point:out_of_domain")
	}
	if !inDomain || boundary || len(candidates) > 1 {
		rec.NT(fmt.Sprint(c))
		rec.SampleNT(c)
	}
	return nil
}

var c04Part = hx.NewPart("C04", "ipa_any_point", genC04, evalC04)

func TestC04(t *testing.T) {
	s := hx.Start(t, "C04")
	defer s.Finish()
	s.Guard(func() { Cfg() })
	// the boundary points are forced into every shard, with a shard-specific dense polynomial
	for _, pt := range forcedPoints() {
		c04Part.EvalCase(s, c04Case{Poly: polySpec{Kind: "dense", Seed: uint64(1000*hx.Seed() + hx.Shard())}, Point: pt,
			Label: "b", Results: []string{"plus1", "neighbour_lo", "neighbour_hi", "zero"}, Seed: uint64(hx.Shard())})
	}
	// structured polynomials: a half whose non-zero evaluations cancel; long runs of equal neighbours
	structured := []polySpec{
		{Kind: "cancel", Base: 1, Idx: []int{0, 1}, Seed: uint64(3*hx.Shard() + 1)}, {Kind: "cancel", Base: 0, Idx: []int{5, 9, 77}, Seed: uint64(3 * hx.Shard())},
		{Kind: "cancel", Base: hx.Shard() & 1, Idx: []int{127, 0, 64, 31}, Seed: uint64(hx.Shard() + 2)}, {Kind: "steps", Base: 7, Seed: uint64(hx.Shard())},
	}
	for i, p := range structured {
		for j, pt := range []string{"3", "81", "12c", hx.HexBig(rMinus1)} {
			if hx.Sharded(i + j) {
				c04Part.EvalCase(s, c04Case{Poly: p, Point: pt, Label: "s", Results: []string{"plus1", "zero"}, Seed: uint64(i)})
			}
		}
	}
	c04Part.Run(s, hx.PerShard(hx.Pick(480, 6400)))
}
