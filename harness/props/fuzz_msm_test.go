//go:build verif && verif_elem && verif_msm

package props

import (
	"math/big"
	"testing"

	"verif/harness/ref"
)

// FuzzC09Digits: explicit scalars (32 bytes each, reduced mod r) through the signed-digit partitioning and the bucket
// method of a chosen window width; the oracle is sum s_i*P_i over points with known discrete logs.
// Layout: width selector | flags (bit0 split first chunk, bit1 Montgomery-flagged, bits 2..3 task count) | scalars.
func FuzzC09Digits(f *testing.F) {
	widths := []int{4, 5, 6, 7, 8, 9, 10, 11, 12, 13, 14, 15, 16}
	rm1 := ref.BE32(new(big.Int).Sub(ref.R, big.NewInt(1)))
	ones := make([]byte, 32)
	for i := range ones {
		ones[i] = 0xff
	}
	half := make([]byte, 32)
	for i := range half {
		half[i] = 0x80
	}
	for w := range widths {
		for fl := 0; fl < 4; fl++ {
			f.Add(append([]byte{byte(w), byte(fl)}, rm1...))
			f.Add(append(append([]byte{byte(w), byte(fl)}, ones...), half...))
		}
	}
	f.Fuzz(func(t *testing.T, b []byte) {
		if len(b) < 2+32 {
			return
		}
		c := c09InnerCase{C: widths[int(b[0])%len(widths)], Split: b[1]&1 == 1, Mont: b[1]&2 == 2, NbTasks: []int{1, 2, 16, 64}[(b[1]>>2)&3], Mode: "raw"}
		rest := b[2:]
		for len(rest) >= 32 && len(c.Raw) < 12 {
			c.Raw = append(c.Raw, new(big.Int).SetBytes(rest[:32]).Text(16))
			rest = rest[32:]
		}
		if err := evalC09Inner(c, fuzzRec); err != nil {
			fuzzFail(t, "C09", "inner", c, err)
		}
	})
}
