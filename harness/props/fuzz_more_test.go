//go:build verif && verif_elem

package props

import (
	"math/big"
	"testing"

	"verif/harness/hx"
	"verif/harness/ref"
)

// FuzzC17Sqrt: any 32 bytes, read as a base-field element, through the table-driven square root and through
// point recovery (both sign choices).
func FuzzC17Sqrt(f *testing.F) {
	for _, b := range hostile32() {
		f.Add(b)
	}
	for _, k := range c17Consts {
		f.Add(be32any(hx.BigHex(k)))
	}
	for _, pat := range montRawPatterns() {
		f.Add(be32any(c17Case{Kind: "montraw", Val: hx.HexBig(pat)}.value()))
	}
	f.Fuzz(func(t *testing.T, b []byte) {
		if len(b) > 32 {
			b = b[:32]
		}
		v := new(big.Int).SetBytes(b)
		v.Mod(v, ref.P)
		for _, c := range []c17Case{{Mode: "sqrt", Kind: "const", Val: v.Text(16)}, {Mode: "point", Kind: "const", Val: v.Text(16), Big: true}, {Mode: "point", Kind: "const", Val: v.Text(16)}} {
			if err := evalC17(c, fuzzRec); err != nil {
				fuzzFail(t, "C17", "sqrt", c, err)
			}
		}
	})
}
