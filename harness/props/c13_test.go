//go:build verif && verif_elem && verif_ipa

package props

import (
	"bytes"
	"crypto/sha256"
	"encoding/binary"
	"fmt"
	"io"
	"math/big"
	"reflect"
	"sync"
	"testing"
	"unsafe"

	multiproof "github.com/crate-crypto/go-ipa"
	"github.com/crate-crypto/go-ipa/bandersnatch"
	"github.com/crate-crypto/go-ipa/bandersnatch/fr"
	"github.com/crate-crypto/go-ipa/banderwagon"
	"github.com/crate-crypto/go-ipa/common"
	"github.com/crate-crypto/go-ipa/ipa"
	"pgregory.net/rapid"

	"verif/harness/hx"
	"verif/harness/ref"
)

// C13 — operations are pure: config and caller inputs are never modified.

type c13Case struct {
	Calls []pcall `json:"calls"`
	Probe []int   `json:"probe"` // positions (call indices) after which the fixed probe call is replayed
}

var c13Ops = []string{
	"commit", "multiprove", "multiprove_shared_index", "multiverify", "multiverify_bad", "ipaprove", "ipaverify", "ipaverify_bad",
	"multiscalar_srs", "multiexp", "multiexp_regular", "elem_codec", "batch_codec", "fr_decode", "batchinvert", "bary", "divide", "innerprod",
	"transcript", "group_ops_on_config", "proof_serde", "proof_read_into_copy", "readpoint_receiver", "batchnormalize", "msm_short", "noise", "noise",
}

func genC13(t *rapid.T) c13Case {
	n := rapid.IntRange(5, 40).Draw(t, "ncalls")
	c := c13Case{}
	for i := 0; i < n; i++ {
		c.Calls = append(c.Calls, pcall{
			Op: rapid.SampledFrom(c13Ops).Draw(t, "op"), Seed: rapid.Uint64().Draw(t, "seed"),
			N: rapid.IntRange(0, 40).Draw(t, "n"), K: rapid.IntRange(0, 255).Draw(t, "k"), Flag: rapid.Bool().Draw(t, "flag"),
		})
	}
	c.Probe = rapid.SliceOfN(rapid.IntRange(0, n-1), 1, 3).Draw(t, "probe")
	return c
}

// ---- fingerprints of shared state

func rawBytes(p unsafe.Pointer, n int) []byte { return unsafe.Slice((*byte)(p), n) }

func elemsBytes(es []banderwagon.Element) []byte {
	if len(es) == 0 {
		return nil
	}
	return rawBytes(unsafe.Pointer(&es[0]), len(es)*int(unsafe.Sizeof(es[0])))
}

func frsBytes(fs []fr.Element) []byte {
	if len(fs) == 0 {
		return nil
	}
	return rawBytes(unsafe.Pointer(&fs[0]), len(fs)*32)
}

// smallState hashes everything shared except the big MSM tables.
func smallState() [32]byte {
	cfg := Cfg()
	h := sha256.New()
	h.Write(elemsBytes(cfg.SRS))
	h.Write(elemsBytes([]banderwagon.Element{cfg.Q, banderwagon.Generator, banderwagon.Identity}))
	bw, inv := cfg.PrecomputedWeights.VerifTables()
	h.Write(frsBytes(bw))
	h.Write(frsBytes(inv))
	id := bandersnatch.Identity
	h.Write(rawBytes(unsafe.Pointer(&id), int(unsafe.Sizeof(id))))
	ie := bandersnatch.IdentityExt
	h.Write(rawBytes(unsafe.Pointer(&ie), int(unsafe.Sizeof(ie))))
	cp := bandersnatch.CurveParams
	for _, e := range []*[4]uint64{(*[4]uint64)(&cp.A), (*[4]uint64)(&cp.D), (*[4]uint64)(&cp.Base.X), (*[4]uint64)(&cp.Base.Y)} {
		for _, l := range e {
			binary.Write(h, binary.LittleEndian, l)
		}
	}
	h.Write(cp.Order.Bytes())
	cof := cp.Cofactor.Bytes()
	h.Write(cof[:])
	for _, m := range []map[string][]byte{ipa.VerifLabels(), multiproof.VerifLabels()} {
		keys := make([]string, 0, len(m))
		for k := range m {
			keys = append(keys, k)
		}
		for i := range keys {
			for j := i + 1; j < len(keys); j++ {
				if keys[j] < keys[i] {
					keys[i], keys[j] = keys[j], keys[i]
				}
			}
		}
		for _, k := range keys {
			h.Write([]byte(k))
			h.Write(m[k])
			h.Write([]byte{byte(len(m[k]))})
		}
	}
	h.Write(fr.Modulus().Bytes())
	deepHash(h, reflect.ValueOf(cfg), 0) // the whole configuration object, unexported and future fields included
	var out [32]byte
	copy(out[:], h.Sum(nil))
	return out
}

// deepHash walks a value with reflection (unexported fields included) and hashes every scalar it reaches; the
// field PrecompMSM (350 MB, fingerprinted separately) is skipped. Added fields, caches or memos inside the shared
// configuration are therefore part of the fingerprint without the harness having to know their names.
func deepHash(h io.Writer, v reflect.Value, depth int) {
	if depth > 12 {
		return
	}
	switch v.Kind() {
	case reflect.Ptr, reflect.Interface:
		if v.IsNil() {
			h.Write([]byte{0})
			return
		}
		h.Write([]byte{1})
		deepHash(h, v.Elem(), depth+1)
	case reflect.Struct:
		for i := 0; i < v.NumField(); i++ {
			if v.Type().Field(i).Name == "PrecompMSM" {
				continue
			}
			deepHash(h, v.Field(i), depth+1)
		}
	case reflect.Slice:
		if v.IsNil() {
			h.Write([]byte{2})
			return
		}
		binary.Write(h, binary.LittleEndian, int64(v.Len()))
		fallthrough
	case reflect.Array:
		if k := v.Type().Elem().Kind(); k == reflect.Uint64 || k == reflect.Uint8 {
			for i := 0; i < v.Len(); i++ {
				binary.Write(h, binary.LittleEndian, v.Index(i).Uint())
			}
			return
		}
		for i := 0; i < v.Len(); i++ {
			deepHash(h, v.Index(i), depth+1)
		}
	case reflect.Map:
		binary.Write(h, binary.LittleEndian, int64(v.Len()))
	case reflect.Bool:
		if v.Bool() {
			h.Write([]byte{1})
		} else {
			h.Write([]byte{0})
		}
	case reflect.Int, reflect.Int8, reflect.Int16, reflect.Int32, reflect.Int64:
		binary.Write(h, binary.LittleEndian, v.Int())
	case reflect.Uint, reflect.Uint8, reflect.Uint16, reflect.Uint32, reflect.Uint64, reflect.Uintptr:
		binary.Write(h, binary.LittleEndian, v.Uint())
	case reflect.String:
		h.Write([]byte(v.String()))
	}
}

// tableState hashes all precomputed MSM table entries (about 350 MB).
func tableState() [32]byte {
	cfg := Cfg()
	h := sha256.New()
	for i := 0; i < 256; i++ {
		_, nw, _ := cfg.PrecompMSM.VerifTableDims(i)
		for k := 0; k < nw; k++ {
			w := cfg.PrecompMSM.VerifTableWindow(i, k)
			h.Write(rawBytes(unsafe.Pointer(&w[0]), len(w)*int(unsafe.Sizeof(w[0]))))
		}
	}
	var out [32]byte
	copy(out[:], h.Sum(nil))
	return out
}

type tableSample struct {
	i, k, j int
	val     bandersnatch.PointExtendedNormalized
}

var (
	c13Once       sync.Once
	c13Small0     [32]byte
	c13Table0     [32]byte
	c13Samples    []tableSample
	c13ProbeBytes []byte
)

func c13Init() {
	c13Once.Do(func() {
		cfg := Cfg()
		c13Small0 = smallState()
		c13Table0 = tableState()
		for n := 0; n < 4096; n++ {
			v := hx.Expand(uint64(hx.Seed()), "c13sample", n)
			i := int(v.Uint64() % 256)
			_, nw, wl := cfg.PrecompMSM.VerifTableDims(i)
			k := int(new(big.Int).Rsh(v, 64).Uint64() % uint64(nw))
			j := int(new(big.Int).Rsh(v, 128).Uint64() % uint64(wl))
			c13Samples = append(c13Samples, tableSample{i, k, j, cfg.PrecompMSM.VerifTableEntry(i, k, j)})
		}
		c13ProbeBytes = c13Probe()
	})
}

// c13Probe is a fixed proving + verifying call whose output must never depend on what ran before.
func c13Probe() []byte {
	cfg := Cfg()
	set := openSet{Label: "probe", Polys: []polySpec{{Kind: "dense", Seed: 4242}, {Kind: "sparse", Seed: 7, Idx: []int{3, 200}}},
		Open: []opening{{Poly: 0, Z: 9}, {Poly: 1, Z: 9}, {Poly: 0, Z: 250}}}
	b, err := set.build()
	if err != nil {
		panic(hx.Inconclusive{Msg: "probe build: " + err.Error()})
	}
	tr := common.NewTranscript(set.Label)
	proof, err := multiproof.CreateMultiProof(tr, cfg, b.Cs, b.fs, b.zs)
	if err != nil {
		return []byte("error:" + err.Error())
	}
	var buf bytes.Buffer
	_ = proof.Write(&buf)
	ok, verr := multiproof.CheckMultiProof(common.NewTranscript(set.Label), cfg, proof, b.Cs, b.ys, b.zs)
	st := tr.ChallengeScalar([]byte("s"))
	sb := st.Bytes()
	buf.Write(sb[:])
	fmt.Fprintf(&buf, "|%v|%v", ok, verr)
	// and a single-opening statement, an in-domain IPA proof, a short commitment
	one := openSet{Label: "probe1", Polys: []polySpec{{Kind: "sparse", Seed: 5, Idx: []int{17, 90}}}, Open: []opening{{Poly: 0, Z: 17}}}
	b1, _ := one.build()
	if p1, err := multiproof.CreateMultiProof(common.NewTranscript("probe1"), cfg, b1.Cs, b1.fs, b1.zs); err == nil {
		_ = p1.Write(&buf)
		ok1, verr1 := multiproof.CheckMultiProof(common.NewTranscript("probe1"), cfg, p1, b1.Cs, b1.ys, b1.zs)
		fmt.Fprintf(&buf, "|%v|%v", ok1, verr1)
	}
	c0 := cfg.Commit(b1.polysFr[0])
	if ip, err := ipa.CreateIPAProof(common.NewTranscript("probe2"), cfg, c0, b1.polysFr[0], hx.FrFromBig(big.NewInt(90))); err == nil {
		_ = ip.Write(&buf)
		ok2, verr2 := ipa.CheckIPAProof(common.NewTranscript("probe2"), cfg, c0, ip, hx.FrFromBig(big.NewInt(90)), b1.polysFr[0][90])
		fmt.Fprintf(&buf, "|%v|%v", ok2, verr2)
	}
	short := cfg.Commit(b1.polysFr[0][:20])
	sbb := short.Bytes()
	buf.Write(sbb[:])
	return buf.Bytes()
}

func sharedStateUnchanged(after string) error {
	if smallState() != c13Small0 {
		return fmt.Errorf("shared state (SRS / Q / weight tables / package constants / labels) changed %s", after)
	}
	cfg := Cfg()
	for _, s := range c13Samples {
		if cfg.PrecompMSM.VerifTableEntry(s.i, s.k, s.j) != s.val {
			return fmt.Errorf("precomputed MSM table entry (point %d, window %d, index %d) changed %s", s.i, s.k, s.j, after)
		}
	}
	return nil
}

// ---- one API call with snapshots of every argument passed by pointer or slice

func snapFr(f []fr.Element) []fr.Element { return append([]fr.Element(nil), f...) }
func sameFr(a, b []fr.Element) bool {
	if len(a) != len(b) {
		return false
	}
	for i := range a {
		if a[i] != b[i] {
			return false
		}
	}
	return true
}
func snapEl(e []banderwagon.Element) []banderwagon.Element {
	return append([]banderwagon.Element(nil), e...)
}
func sameEl(a, b []banderwagon.Element) bool {
	return bytes.Equal(elemsBytes(a), elemsBytes(b))
}

// withSpare returns the same values in a slice that has spare capacity filled with canary values; afterSpare reports
// whether the hidden part behind len() was written to (append-aliasing into the caller's backing array).
func withSpareEl(v []*banderwagon.Element, canary *banderwagon.Element) []*banderwagon.Element {
	out := make([]*banderwagon.Element, len(v), len(v)+3)
	copy(out, v)
	full := out[:cap(out)]
	for i := len(v); i < len(full); i++ {
		full[i] = canary
	}
	return out
}
func spareElIntact(v []*banderwagon.Element, canary *banderwagon.Element) bool {
	full := v[:cap(v)]
	for i := len(v); i < len(full); i++ {
		if full[i] != canary {
			return false
		}
	}
	return true
}
func withSpareFrPtr(v []*fr.Element, canary *fr.Element) []*fr.Element {
	out := make([]*fr.Element, len(v), len(v)+3)
	copy(out, v)
	full := out[:cap(out)]
	for i := len(v); i < len(full); i++ {
		full[i] = canary
	}
	return out
}
func spareFrPtrIntact(v []*fr.Element, canary *fr.Element) bool {
	full := v[:cap(v)]
	for i := len(v); i < len(full); i++ {
		if full[i] != canary {
			return false
		}
	}
	return true
}
func withSpareBytes(v []uint8) []uint8 {
	out := make([]uint8, len(v), len(v)+5)
	copy(out, v)
	full := out[:cap(out)]
	for i := len(v); i < len(full); i++ {
		full[i] = 0xA5
	}
	return out
}
func spareBytesIntact(v []uint8) bool {
	full := v[:cap(v)]
	for i := len(v); i < len(full); i++ {
		if full[i] != 0xA5 {
			return false
		}
	}
	return true
}
func withSparePolys(v [][]fr.Element, canary []fr.Element) [][]fr.Element {
	out := make([][]fr.Element, len(v), len(v)+2)
	copy(out, v)
	full := out[:cap(out)]
	for i := len(v); i < len(full); i++ {
		full[i] = canary
	}
	return out
}
func sparePolysIntact(v [][]fr.Element, canary []fr.Element) bool {
	full := v[:cap(v)]
	for i := len(v); i < len(full); i++ {
		if len(full[i]) != len(canary) || (len(canary) > 0 && &full[i][0] != &canary[0]) {
			return false
		}
	}
	return true
}

type c13Env struct {
	lastSet   *builtSet
	lastProof *multiproof.MultiProof
	lastLabel string
	lastIPA   *ipa.IPAProof
	lastIPAC  banderwagon.Element
	lastIPAZ  fr.Element
	lastIPAY  fr.Element
}

func poolElemBytes(seed uint64) [32]byte {
	return hx.G.Compress(hx.G.Mul(hx.G.CRS()[seed%256], hx.ExpandFr(seed, "c13pe", 0)))
}

func poolElem(seed uint64) banderwagon.Element {
	p := hx.G.Mul(hx.G.CRS()[seed%256], hx.ExpandFr(seed, "c13pe", 0))
	return hx.ToImpl(hx.Rep(p, int(seed>>8)%4, seed))
}

func doCall(env *c13Env, c pcall, rec *hx.Rec) error {
	cfg := Cfg()
	rec.Label("call=" + c.Op)
	fail := func(format string, a ...any) error { return fmt.Errorf(c.Op+": "+format, a...) }
	switch c.Op {
	case "commit":
		f := hx.FrSliceFromBig(polySpec{Kind: []string{"dense", "sparse", "max"}[c.N%3], Seed: c.Seed, Idx: []int{c.K, 255 - c.K}}.evals())[:1+(c.K*7+c.N)%256]
		s := snapFr(f)
		_ = cfg.Commit(f)
		if !sameFr(f, s) {
			return fail("the polynomial was modified")
		}
	case "multiprove", "multiprove_shared_index", "multiprove_large":
		n := 1 + c.N%5
		if c.Op == "multiprove_large" { // more distinct, non-normalised commitment objects than any internal block size
			n = 1030 + c.N%20
		}
		set := openSet{Label: fmt.Sprintf("l%d", c.K%3)}
		for i := 0; i < 1+c.N%3; i++ {
			set.Polys = append(set.Polys, polySpec{Kind: []string{"dense", "sparse", "const", "dense"}[(c.K+i)%4], Seed: c.Seed + uint64(i), Idx: []int{c.K, (c.K + 9) & 255}, Val: "5"})
		}
		for i := 0; i < n; i++ {
			o := opening{Poly: i % len(set.Polys), Z: (c.K + 31*i) & 255, Rep: int(c.Seed>>uint(2*i)) & 3, Lambda: c.Seed + uint64(i)}
			if c.Op == "multiprove_shared_index" {
				o.Z = c.K // every opening shares the evaluation index (the aliasing shape)
				n = maxInt(n, 2)
			}
			if c.Op == "multiprove_large" {
				o.Rep = 1 + 2*(i%2)
			}
			if c.Flag && i > 0 && i%2 == 0 && c.Op != "multiprove_large" {
				o.Share, o.Rep, o.Lambda = i-1, 0, 0 // reuse a commitment pointer
				o.Poly = set.Open[i-2].Poly
			}
			set.Open = append(set.Open, o)
		}
		for len(set.Open) < n {
			set.Open = append(set.Open, opening{Poly: 0, Z: c.K})
		}
		b, err := set.build()
		if err != nil {
			return err
		}
		polys := make([][]fr.Element, len(b.polysFr))
		for i := range polys {
			polys[i] = snapFr(b.polysFr[i])
		}
		zs := append([]uint8(nil), b.zs...)
		canaryEl, canaryPoly := new(banderwagon.Element), make([]fr.Element, 256)
		b.Cs, b.fs, b.zs = withSpareEl(b.Cs, canaryEl), withSparePolys(b.fs, canaryPoly), withSpareBytes(b.zs)
		proof, perr := multiproof.CreateMultiProof(common.NewTranscript(set.Label), cfg, b.Cs, b.fs, b.zs)
		if perr != nil {
			return fail("honest proving failed: %v", perr)
		}
		if !spareElIntact(b.Cs, canaryEl) || !sparePolysIntact(b.fs, canaryPoly) || !spareBytesIntact(b.zs) {
			return fail("CreateMultiProof wrote behind the end of a caller-supplied slice (append into the caller's backing array)")
		}
		for i := range polys {
			if !sameFr(polys[i], b.polysFr[i]) {
				return fail("the caller's polynomial %d was modified (n=%d openings, shared index=%v)", i, n, c.Op == "multiprove_shared_index")
			}
		}
		if !bytes.Equal(zs, b.zs) {
			return fail("the evaluation indices were modified")
		}
		for i := range b.Cs {
			got := hx.FromImpl(b.Cs[i])
			if !hx.G.IsValid(got) || !hx.G.Equal(got, b.CsRef[i]) {
				return fail("commitment %d is no longer the same group element", i)
			}
		}
		env.lastSet, env.lastProof, env.lastLabel = b, proof, set.Label
		if c.Op == "multiprove_shared_index" || c.Flag {
			rec.Label("aliasing_shape")
		}
	case "multiverify", "multiverify_bad":
		if env.lastProof == nil {
			return nil
		}
		b := env.lastSet
		ys := make([]*fr.Element, len(b.ys))
		ysSnap := make([]fr.Element, len(b.ys))
		shared := new(fr.Element)
		for i := range ys {
			v := *b.ys[i]
			if c.Op == "multiverify_bad" && i == c.K%len(ys) {
				v.Add(&v, shared.SetOne())
			}
			ysSnap[i] = v
			ys[i] = &v
		}
		if c.Flag && len(ys) > 1 && ysSnap[0] == ysSnap[1] { // one scalar object used for two claimed values
			ys[1] = ys[0]
		}
		csSnap := make([]banderwagon.Element, len(b.Cs))
		for i := range b.Cs {
			csSnap[i] = *b.Cs[i]
		}
		zs := withSpareBytes(b.zs)
		proofSnap := *env.lastProof
		lSnap, rSnap := snapEl(env.lastProof.IPA.L), snapEl(env.lastProof.IPA.R)
		canaryEl, canaryFr := new(banderwagon.Element), new(fr.Element)
		csArg, ysArg := withSpareEl(b.Cs, canaryEl), withSpareFrPtr(ys, canaryFr)
		ok, verr := multiproof.CheckMultiProof(common.NewTranscript(env.lastLabel), cfg, env.lastProof, csArg, ysArg, zs)
		if verr != nil || ok != (c.Op == "multiverify") {
			return fail("verdict (%v, %v) for a %s statement", ok, verr, c.Op)
		}
		if !spareElIntact(csArg, canaryEl) || !spareFrPtrIntact(ysArg, canaryFr) || !spareBytesIntact(zs) {
			return fail("CheckMultiProof wrote behind the end of a caller-supplied slice (append into the caller's backing array)")
		}
		for i := range csArg {
			if csArg[i] != b.Cs[i] || ysArg[i] != ys[i] {
				return fail("CheckMultiProof replaced a pointer in a caller-supplied slice")
			}
		}
		for i := range ys {
			if *ys[i] != ysSnap[i] {
				return fail("claimed value %d was modified", i)
			}
			if *b.Cs[i] != csSnap[i] {
				return fail("commitment %d was modified by verification", i)
			}
		}
		if !bytes.Equal(zs, b.zs[:len(zs)]) {
			return fail("indices modified")
		}
		if env.lastProof.D != proofSnap.D || env.lastProof.IPA.A_scalar != proofSnap.IPA.A_scalar || !sameEl(lSnap, env.lastProof.IPA.L) || !sameEl(rSnap, env.lastProof.IPA.R) {
			return fail("the proof object was modified by verification")
		}
	case "ipaprove":
		f := hx.FrSliceFromBig(polySpec{Kind: []string{"dense", "sparse", "onehot", "sparse"}[c.N%4], Seed: c.Seed, Idx: []int{c.K, (c.K + 100) & 255, 3}, Val: "7"}.evals())
		// the polynomial is one row of a larger caller-owned array: the following row sits in its spare capacity
		rows := make([]fr.Element, 512)
		copy(rows, f)
		for i := 256; i < 512; i++ {
			rows[i] = hx.FrFromBig(big.NewInt(int64(1000 + i)))
		}
		nextRow := snapFr(rows[256:])
		f = rows[:256]
		s := snapFr(f)
		comm := cfg.Commit(f)
		commSnap := comm
		z := hx.FrFromBig(big.NewInt(int64(c.K + 256*(c.N%3))))
		proof, perr := ipa.CreateIPAProof(common.NewTranscript("ipa13"), cfg, comm, f, z)
		if perr != nil {
			return fail("%v", perr)
		}
		if !sameFr(f, s) || comm != commSnap {
			return fail("polynomial or commitment modified")
		}
		if !sameFr(rows[256:], nextRow) {
			return fail("CreateIPAProof wrote behind the end of the polynomial slice it was given (the next row of the caller's array changed)")
		}
		env.lastIPA, env.lastIPAC, env.lastIPAZ = &proof, comm, z
		zb := hx.FrToBig(&z)
		env.lastIPAY = hx.FrFromBig(ref.EvalAt(hx.FrSliceToBig(f), zb))
	case "ipaverify", "ipaverify_bad":
		if env.lastIPA == nil {
			return nil
		}
		lSnap, rSnap, aSnap := snapEl(env.lastIPA.L), snapEl(env.lastIPA.R), env.lastIPA.A_scalar
		y := env.lastIPAY
		if c.Op == "ipaverify_bad" {
			one := fr.One()
			y.Add(&y, &one)
		}
		ok, verr := ipa.CheckIPAProof(common.NewTranscript("ipa13"), cfg, env.lastIPAC, *env.lastIPA, env.lastIPAZ, y)
		if verr != nil || ok != (c.Op == "ipaverify") {
			return fail("verdict (%v, %v)", ok, verr)
		}
		if !sameEl(lSnap, env.lastIPA.L) || !sameEl(rSnap, env.lastIPA.R) || aSnap != env.lastIPA.A_scalar {
			return fail("the IPA proof object was modified by verification")
		}
	case "multiscalar_srs":
		k := 1 + c.K
		sc := hx.FrSliceFromBig(polySpec{Kind: "dense", Seed: c.Seed}.evals())[:k]
		s := snapFr(sc)
		lo := (c.N * 7) % (257 - k)
		if _, err := ipa.MultiScalar(cfg.SRS[lo:lo+k], sc); err != nil { // a slice of the shared SRS handed to the MSM
			return fail("%v", err)
		}
		if !sameFr(sc, s) {
			return fail("scalars modified")
		}
	case "multiexp", "multiexp_regular", "msm_short":
		n := c.N
		if c.Op == "msm_short" {
			n = c.N % 4
		}
		pts := make([]banderwagon.Element, n, n+2)
		sc := make([]fr.Element, n, n+2)
		mont := c.Op != "multiexp_regular" && !(c.Op == "msm_short" && c.Flag)
		for i := range pts {
			pts[i] = poolElem(c.Seed + uint64(i))
			if c.N%3 == 1 && i%3 == 0 { // identity points in front of / between ordinary ones (both representatives)
				pts[i] = banderwagon.Identity
				if i%2 == 1 {
					pts[i] = hx.ToImpl(hx.Rep(hx.G.Identity(), 3, c.Seed))
				}
			}
			v := hx.ExpandFr(c.Seed, "c13sc", i)
			if i%4 == 0 {
				v = big.NewInt(int64(i + 1)) // small scalars: first-chunk split path
			}
			sc[i] = frScalarC13(v, mont)
		}
		ps, ss := snapEl(pts), snapFr(sc)
		var res banderwagon.Element
		res.SetIdentity()
		if _, err := res.MultiExp(pts, sc, banderwagon.MultiExpConfig{NbTasks: []int{0, 1, 16, 100}[c.K%4], ScalarsMont: mont}); err != nil {
			return fail("%v", err)
		}
		if !sameEl(ps, pts) || !sameFr(ss, sc) {
			return fail("points or scalars of the MSM were modified (n=%d, mont=%v)", n, mont)
		}
		var zeroEl banderwagon.Element
		var zeroFr fr.Element
		for _, e := range pts[:cap(pts)][n:] {
			if e != zeroEl {
				return fail("MultiExp wrote behind the end of the points slice")
			}
		}
		for _, e := range sc[:cap(sc)][n:] {
			if e != zeroFr {
				return fail("MultiExp wrote behind the end of the scalars slice")
			}
		}
	case "readpoint_receiver":
		// what a decoder returns belongs to the caller: it is used as the receiver of in-place operations afterwards. The
		// shared state (package-level Identity / Generator included) is fingerprinted after the call by the history loop.
		encs := [][32]byte{{}, banderwagon.Generator.Bytes(), poolElemBytes(c.Seed)}
		enc := encs[c.K%3]
		p, err := common.ReadPoint(bytes.NewReader(enc[:]))
		if err != nil || p == nil {
			return fail("ReadPoint of a valid encoding failed: %v", err)
		}
		x := poolElem(c.Seed + 1)
		p.Add(p, &x)
		p.Double(p)
		var q banderwagon.Element
		if err := q.SetBytes(enc[:]); err != nil {
			return fail("SetBytes of a valid encoding failed: %v", err)
		}
		q.Add(&q, &x)
		q.SetIdentity()
		p2, err := common.ReadPoint(bytes.NewReader(enc[:]))
		if err != nil || p2 == nil {
			return fail("second ReadPoint failed: %v", err)
		}
		if got := p2.Bytes(); got != enc {
			return fail("decoding %x a second time, after the first result was used as a receiver, gives an element encoding to %x", enc, got)
		}
	case "elem_codec":
		e := poolElem(c.Seed)
		s := e
		b1 := e.Bytes()
		b2 := e.BytesUncompressedTrusted()
		var sc fr.Element
		e.MapToScalarField(&sc)
		if e != s {
			return fail("Bytes / BytesUncompressedTrusted / MapToScalarField modified the element")
		}
		buf := append([]byte(nil), b1[:]...)
		var d banderwagon.Element
		_ = d.SetBytes(buf)
		_ = d.SetBytesUnsafe(buf)
		if !bytes.Equal(buf, b1[:]) {
			return fail("SetBytes modified its input")
		}
		buf2 := append([]byte(nil), b2[:]...)
		_ = d.SetBytesUncompressed(buf2, c.Flag)
		if !bytes.Equal(buf2, b2[:]) {
			return fail("SetBytesUncompressed modified its input")
		}
		_, _ = common.ReadPoint(bytes.NewReader(buf))
	case "batch_codec", "batchnormalize":
		n := c.N % 12
		objs := make([]banderwagon.Element, n)
		list := make([]*banderwagon.Element, n)
		for i := range objs {
			objs[i] = poolElem(c.Seed + uint64(i%5))
			list[i] = &objs[i]
			if c.Flag && i > 1 {
				list[i] = &objs[i%2]
			}
		}
		s := snapEl(objs)
		listSnap := append([]*banderwagon.Element(nil), list...)
		if c.Op == "batch_codec" {
			_ = banderwagon.ElementsToBytes(list...)
			_ = banderwagon.BatchToBytesUncompressed(list...)
			res := make([]*fr.Element, n)
			for i := range res {
				res[i] = new(fr.Element)
			}
			_ = banderwagon.BatchMapToScalarField(res, list)
			if !sameEl(s, objs) {
				return fail("a batch serialiser modified its input elements")
			}
		} else {
			if err := banderwagon.BatchNormalize(list); err != nil {
				return fail("%v", err)
			}
			for i := range objs {
				if !hx.G.Equal(hx.FromImpl(&objs[i]), hx.FromImpl(&s[i])) {
					return fail("BatchNormalize changed the group element %d", i)
				}
			}
		}
		for i := range list {
			if list[i] != listSnap[i] {
				return fail("the pointer list was modified")
			}
		}
	case "fr_decode":
		buf := hx.ExpandBytes(c.Seed, "c13fr", []int{32, 32, 31, 33, 64, 0}[c.N%6])
		if c.Flag && len(buf) >= 32 {
			copy(buf, ref.LE32(new(big.Int).Add(ref.R, big.NewInt(int64(c.K))))) // non-canonical: the rejecting path
		}
		s := append([]byte(nil), buf...)
		var e fr.Element
		for name, dec := range map[string]func(){
			"SetBytes":            func() { e.SetBytes(buf) },
			"SetBytesLE":          func() { e.SetBytesLE(buf) },
			"SetBytesLECanonical": func() { _, _ = e.SetBytesLECanonical(buf) },
			"ReadScalar":          func() { _, _ = common.ReadScalar(bytes.NewReader(buf)) },
		} {
			dec()
			if !bytes.Equal(buf, s) { // checked after every single call: two in-place reversals would cancel
				return fail("%s modified the caller's byte slice (%x -> %x)", name, s, buf)
			}
		}
		_ = e.String()
	case "batchinvert":
		v := hx.FrSliceFromBig(polySpec{Kind: "sparse", Seed: c.Seed, Idx: []int{1, 2, c.K}}.evals())[:c.N]
		s := snapFr(v)
		_ = fr.BatchInvert(v)
		if !sameFr(v, s) {
			return fail("BatchInvert modified its input")
		}
	case "bary":
		z := hx.FrFromBig(hx.ExpandFr(c.Seed, "c13z", 0))
		zs := z
		_ = cfg.PrecomputedWeights.ComputeBarycentricCoefficients(z)
		if z != zs {
			return fail("point modified")
		}
	case "divide":
		f := hx.FrSliceFromBig(polySpec{Kind: "dense", Seed: c.Seed}.evals())
		s := snapFr(f)
		_ = cfg.PrecomputedWeights.DivideOnDomain(uint8(c.K), f)
		if !sameFr(f, s) {
			return fail("DivideOnDomain modified its input")
		}
	case "innerprod":
		a := hx.FrSliceFromBig(polySpec{Kind: "dense", Seed: c.Seed}.evals())[:c.N]
		b := cfg.PrecomputedWeights.ComputeBarycentricCoefficients(hx.FrFromBig(big.NewInt(int64(300 + c.K))))[:c.N]
		sa, sb := snapFr(a), snapFr(b)
		_, _ = ipa.InnerProd(a, b)
		_ = common.PowersOf(hx.FrFromBig(big.NewInt(int64(c.K))), 1+c.N)
		if !sameFr(a, sa) || !sameFr(b, sb) {
			return fail("InnerProd modified an operand")
		}
	case "transcript":
		tr := common.NewTranscript("t13")
		label := []byte(fmt.Sprintf("label-%d", c.K))
		ls := append([]byte(nil), label...)
		msg := hx.ExpandBytes(c.Seed, "c13msg", c.N*40)
		ms := append([]byte(nil), msg...)
		e := poolElem(c.Seed)
		es := e
		sc := hx.FrFromBig(hx.ExpandFr(c.Seed, "c13ts", 0))
		ss := sc
		tr.DomainSep(label)
		tr.AppendMessage(msg, label)
		tr.AppendPoint(&e, label)
		tr.AppendPoint(&cfg.SRS[c.K], label) // a config element by pointer
		tr.AppendScalar(&sc, label)
		_ = tr.ChallengeScalar(label)
		_ = tr.ChallengeScalar(label)
		if !bytes.Equal(label, ls) || !bytes.Equal(msg, ms) || e != es || sc != ss {
			return fail("a transcript operation modified its argument")
		}
	case "group_ops_on_config":
		var r1, r2, r3 banderwagon.Element
		sc := hx.FrFromBig(hx.ExpandFr(c.Seed, "c13g", 0))
		ss := sc
		r1.Add(&cfg.SRS[c.K], &cfg.Q)
		r2.Sub(&cfg.SRS[c.K], &cfg.SRS[(c.K+1)&255])
		r3.ScalarMul(&cfg.SRS[c.K], &sc)
		r3.Double(&banderwagon.Generator)
		r3.Neg(&banderwagon.Identity)
		_ = r1.Equal(&cfg.Q)
		_ = cfg.SRS[c.K].Bytes()
		if sc != ss {
			return fail("scalar modified")
		}
	case "proof_serde":
		if env.lastProof == nil {
			return nil
		}
		snap := *env.lastProof
		lSnap, rSnap := snapEl(env.lastProof.IPA.L), snapEl(env.lastProof.IPA.R)
		var buf bytes.Buffer
		if err := env.lastProof.Write(&buf); err != nil {
			return fail("%v", err)
		}
		raw := append([]byte(nil), buf.Bytes()...)
		var again multiproof.MultiProof
		if err := again.Read(bytes.NewReader(buf.Bytes())); err != nil {
			return fail("%v", err)
		}
		_ = again.Equal(*env.lastProof)
		if !bytes.Equal(raw, buf.Bytes()) || env.lastProof.D != snap.D || !sameEl(lSnap, env.lastProof.IPA.L) || !sameEl(rSnap, env.lastProof.IPA.R) {
			return fail("serialisation modified the proof or the bytes")
		}
	case "proof_read_into_copy":
		// A by-value copy of a proof object shares its L/R backing arrays with the original. Decoding other bytes into the
		// copy (completely, or failing half way) must leave the original proof - which is not an argument of the call - intact.
		other := c10Case{Kind: "multi", Base: "valid", Seed: c.Seed, Field: -1}.bytesOf()
		if c.Flag {
			other = other[:32*(1+c.K%17)+c.N%32]
		}
		if env.lastProof != nil {
			orig := env.lastProof
			dSnap, aSnap := orig.D, orig.IPA.A_scalar
			lSnap, rSnap := snapEl(orig.IPA.L), snapEl(orig.IPA.R)
			scratch := *orig
			if perr := hx.Try(func() { _ = scratch.Read(bytes.NewReader(other)) }); perr != nil {
				return fail("MultiProof.Read: %v", perr)
			}
			if orig.D != dSnap || orig.IPA.A_scalar != aSnap || !sameEl(lSnap, orig.IPA.L) || !sameEl(rSnap, orig.IPA.R) {
				return fail("MultiProof.Read into a by-value copy of a proof modified the original proof object (%d input bytes)", len(other))
			}
		}
		if env.lastIPA != nil {
			orig := env.lastIPA
			aSnap := orig.A_scalar
			lSnap, rSnap := snapEl(orig.L), snapEl(orig.R)
			scratch := *orig
			in := other[32:]
			if perr := hx.Try(func() { _ = scratch.Read(bytes.NewReader(in)) }); perr != nil {
				return fail("IPAProof.Read: %v", perr)
			}
			if orig.A_scalar != aSnap || !sameEl(lSnap, orig.L) || !sameEl(rSnap, orig.R) {
				return fail("IPAProof.Read into a by-value copy of a proof modified the original proof object (%d input bytes)", len(in))
			}
		}
	case "noise": // unrelated calls including failing ones (their own arguments are not snapshotted; the shared state is)
		runNoise(c.Seed|1, 3, true)
	default:
		panic(hx.Inconclusive{Msg: "unknown call " + c.Op})
	}
	return nil
}

func frScalarC13(v *big.Int, mont bool) fr.Element {
	if mont {
		return hx.FrFromBig(v)
	}
	return hx.FrSetRaw(v)
}

func evalC13(c c13Case, rec *hx.Rec) error {
	c13Init()
	rec.Eval(1)
	rec.Sample(c)
	env := &c13Env{}
	probeAt := map[int]bool{}
	for _, p := range c.Probe {
		probeAt[p] = true
	}
	aliasing := false
	for i, call := range c.Calls {
		var err error
		if perr := hx.Try(func() { err = doCall(env, call, rec) }); perr != nil {
			return fmt.Errorf("call %d (%s): %w", i, call.Op, perr)
		}
		if err != nil {
			return fmt.Errorf("call %d: %w", i, err)
		}
		if err := sharedStateUnchanged(fmt.Sprintf("after call %d (%s)", i, call.Op)); err != nil {
			return err
		}
		if call.Op == "multiprove_shared_index" || (call.Op == "multiprove" && call.Flag) {
			aliasing = true
		}
		if probeAt[i] {
			var got []byte
			if perr := hx.Try(func() { got = c13Probe() }); perr != nil {
				return fmt.Errorf("probe after call %d: %w", i, perr)
			}
			if !bytes.Equal(got, c13ProbeBytes) {
				return fmt.Errorf("the fixed probe call returned different bytes after call %d (%s) than at start-up: results depend on earlier calls", i, call.Op)
			}
			rec.Label("probe_replayed")
		}
	}
	if tableState() != c13Table0 {
		return fmt.Errorf("the precomputed MSM tables changed during the history")
	}
	if aliasing {
		rec.NT(fmt.Sprint(c))
		rec.SampleNT(c)
	}
	return nil
}

var c13Part = hx.NewPart("C13", "history", genC13, evalC13)

func TestC13(t *testing.T) {
	s := hx.Start(t, "C13")
	defer s.Finish()
	if !s.Guard(c13Init) {
		return
	}
	// every kind of call once, with the probe after each, in shard order
	var all []pcall
	for i, op := range c13Ops {
		all = append(all, pcall{Op: op, Seed: uint64(100*hx.Shard() + i), N: 7 + i, K: (13*i + hx.Shard()) & 255, Flag: i%2 == 0})
	}
	c13Part.EvalCase(s, c13Case{Calls: all, Probe: []int{3, len(all) - 1}})
	if hx.Sharded(1) || hx.Thorough() {
		c13Part.EvalCase(s, c13Case{Calls: []pcall{{Op: "multiprove_large", Seed: uint64(7 + hx.Shard()), N: hx.Shard(), K: 11}, {Op: "multiverify", Seed: 3}}, Probe: []int{1}})
	}
	c13Part.Run(s, hx.PerShard(hx.Pick(640, 9600)))
}
