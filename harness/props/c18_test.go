//go:build verif && verif_elem && verif_ipa

package props

import (
	"fmt"
	"math/big"
	"sync"
	"testing"

	"github.com/crate-crypto/go-ipa/bandersnatch/fr"
	"github.com/crate-crypto/go-ipa/ipa"
	"pgregory.net/rapid"

	"verif/harness/hx"
	"verif/harness/ref"
)

// C18 — barycentric evaluation and in-domain division are exact polynomial operations.

type c18Case struct {
	Poly  polySpec `json:"poly"`
	Mode  string   `json:"mode"`        // divide | evaluate
	K     int      `json:"k,omitempty"` // domain index for divide
	Z     string   `json:"z,omitempty"` // out-of-domain point (hex) for evaluate
	Noise uint64   `json:"noise,omitempty"`
}

func genC18(t *rapid.T) c18Case {
	c := c18Case{Poly: genPoly(t, "p"), Mode: rapid.SampledFrom([]string{"divide", "divide", "evaluate"}).Draw(t, "mode"),
		Noise: noiseSeedFrom(rapid.Uint64().Draw(t, "noise"))}
	if rapid.IntRange(0, 3).Draw(t, "monomial") == 0 {
		c.Poly = polySpec{Kind: "monomial255"}
	}
	if c.Mode == "divide" {
		c.K = rapid.IntRange(0, 255).Draw(t, "k")
	} else {
		for {
			c.Z = genPointHex(t)
			if hx.BigHex(c.Z).Cmp(big.NewInt(256)) >= 0 {
				break
			}
			c.Z = "100"
			break
		}
	}
	return c
}

// c18Evals extends polySpec with the degree-255 monomial in evaluation form.
func c18Evals(p polySpec) []*big.Int {
	if p.Kind == "monomial255" {
		f := make([]*big.Int, 256)
		for i := range f {
			f[i] = new(big.Int).Exp(big.NewInt(int64(i)), big.NewInt(255), ref.R)
		}
		return f
	}
	return p.evals()
}

// coefficient-form cache (interpolation is the expensive step)
var c18Cache = map[string][]*big.Int{}

func c18Coeffs(p polySpec, f []*big.Int) []*big.Int {
	key := fmt.Sprint(p)
	if co, ok := c18Cache[key]; ok {
		return co
	}
	co := ref.Interpolate(f)
	if len(c18Cache) > 64 {
		c18Cache = map[string][]*big.Int{}
	}
	c18Cache[key] = co
	return co
}

func checkDivide(p polySpec, f []*big.Int, co []*big.Int, k int) error {
	return checkDivideOn(Cfg().PrecomputedWeights, p, f, co, k)
}

func checkDivideOn(pw *ipa.PrecomputedWeights, p polySpec, f []*big.Int, co []*big.Int, k int) error {
	ff := hx.FrSliceFromBig(f)
	ffCopy := append([]fr.Element(nil), ff...)
	var q []fr.Element
	if perr := hx.Try(func() { q = pw.DivideOnDomain(uint8(k), ff) }); perr != nil {
		return fmt.Errorf("DivideOnDomain(%d): %w", k, perr)
	}
	_ = ffCopy
	if len(q) != 256 {
		return fmt.Errorf("DivideOnDomain(%d) returned %d values", k, len(q))
	}
	qc := ref.SyntheticDivide(co, big.NewInt(int64(k)))
	for j := 0; j < 256; j++ {
		want := ref.Horner(qc, big.NewInt(int64(j)))
		if !hx.FrReduced(&q[j]) || hx.FrToBig(&q[j]).Cmp(want) != 0 {
			return fmt.Errorf("DivideOnDomain(k=%d, %+v)[%d] = %s, the quotient (p(X)-p(k))/(X-k) evaluates there to %s (index distance %d)",
				k, p, j, hx.FrToBig(&q[j]).Text(16), want.Text(16), j-k)
		}
	}
	return nil
}

func checkEvaluate(p polySpec, f []*big.Int, co []*big.Int, z *big.Int) error {
	return checkEvaluateOn(Cfg().PrecomputedWeights, p, f, co, z)
}

func checkEvaluateOn(pw *ipa.PrecomputedWeights, p polySpec, f []*big.Int, co []*big.Int, z *big.Int) error {
	var b []fr.Element
	if perr := hx.Try(func() { b = pw.ComputeBarycentricCoefficients(hx.FrFromBig(z)) }); perr != nil {
		return fmt.Errorf("ComputeBarycentricCoefficients(%s): %w", z.Text(16), perr)
	}
	if len(b) != 256 {
		return fmt.Errorf("ComputeBarycentricCoefficients returned %d values", len(b))
	}
	got := ref.FrInner(f, hx.FrSliceToBig(b))
	want := ref.Horner(co, z)
	if got.Cmp(want) == 0 {
		// the returned slice belongs to the caller: overwrite it, then the same question must get the same answer
		for i := range b {
			b[i].SetUint64(uint64(i) + 7)
		}
		var b2 []fr.Element
		if perr := hx.Try(func() { b2 = pw.ComputeBarycentricCoefficients(hx.FrFromBig(z)) }); perr != nil {
			return perr
		}
		if got2 := ref.FrInner(f, hx.FrSliceToBig(b2)); got2.Cmp(want) != 0 {
			return fmt.Errorf("the second ComputeBarycentricCoefficients(z=%s) after the caller overwrote the first result gives <f,coeffs> = %s, p(z) = %s", z.Text(16), got2.Text(16), want.Text(16))
		}
	}
	if got.Cmp(want) != 0 {
		return fmt.Errorf("<f, ComputeBarycentricCoefficients(z=%s)> = %s for %+v, but p(z) in coefficient form = %s", z.Text(16), got.Text(16), p, want.Text(16))
	}
	return nil
}

func evalC18(c c18Case, rec *hx.Rec) error {
	rec.Eval(1)
	rec.Sample(c)
	runNoise(c.Noise, 2, true)
	f := c18Evals(c.Poly)
	co := c18Coeffs(c.Poly, f)
	rec.Label("mode="+c.Mode, "poly="+c.Poly.Kind)
	nonconst := false
	for i := 1; i < 256; i++ {
		if f[i].Cmp(f[0]) != 0 {
			nonconst = true
			break
		}
	}
	if c.Mode == "divide" {
		if err := checkDivide(c.Poly, f, co, c.K); err != nil {
			return err
		}
		if c.K >= 128 {
			rec.Label("k>=128")
		}
	} else {
		z := new(big.Int).Mod(hx.BigHex(c.Z), ref.R)
		if z.Cmp(big.NewInt(256)) < 0 {
			return nil
		}
		if err := checkEvaluate(c.Poly, f, co, z); err != nil {
			return err
		}
	}
	if nonconst {
		rec.NT(fmt.Sprint(c))
		rec.SampleNT(c)
	}
	return nil
}

var c18Part = hx.NewPart("C18", "poly", genC18, evalC18)

// the precomputed tables equal their defining products / inverses / negated inverses
type c18TableCase struct {
	Table string `json:"table"` // weights | inverted
	Index int    `json:"index"`
}

func evalC18Table(c c18TableCase, rec *hx.Rec) error {
	bw, inv := Cfg().PrecomputedWeights.VerifTables()
	if len(bw) != 512 || len(inv) != 510 {
		return fmt.Errorf("table sizes are %d and %d, expected 512 and 510", len(bw), len(inv))
	}
	rec.Eval(1)
	var got, want *big.Int
	switch c.Table {
	case "weights":
		got = hx.FrToBig(&bw[c.Index])
		if c.Index < 256 {
			want = ref.APrime(c.Index)
		} else {
			want = ref.FrInv(ref.APrime(c.Index - 256))
		}
		if !hx.FrReduced(&bw[c.Index]) {
			return fmt.Errorf("barycentricWeights[%d] is not reduced", c.Index)
		}
	case "inverted":
		got = hx.FrToBig(&inv[c.Index])
		if c.Index < 255 {
			want = ref.FrInv(big.NewInt(int64(c.Index + 1)))
		} else {
			want = ref.FrNeg(ref.FrInv(big.NewInt(int64(c.Index - 255 + 1))))
		}
		if !hx.FrReduced(&inv[c.Index]) {
			return fmt.Errorf("invertedDomain[%d] is not reduced", c.Index)
		}
	}
	if got.Cmp(want) != 0 {
		return fmt.Errorf("table %s[%d] = %s, defining value %s", c.Table, c.Index, got.Text(16), want.Text(16))
	}
	return nil
}

var c18Table = hx.NewPart("C18", "table", func(t *rapid.T) c18TableCase {
	tb := rapid.SampledFrom([]string{"weights", "inverted"}).Draw(t, "table")
	n := 512
	if tb == "inverted" {
		n = 510
	}
	return c18TableCase{Table: tb, Index: rapid.IntRange(0, n-1).Draw(t, "index")}
}, evalC18Table)

func TestC18(t *testing.T) {
	s := hx.Start(t, "C18")
	defer s.Finish()
	if !s.Guard(func() { Cfg() }) {
		return
	}
	// the FIRST call on a freshly constructed weights object, at an index k > 0 and at an out-of-domain point (tables
	// or caches that are filled lazily must be complete before their first use)
	for j := 0; j < 4; j++ {
		k := 1 + (37*hx.Shard()+61*j+hx.Seed())%255
		p := polySpec{Kind: "dense", Seed: uint64(500 + 16*j + hx.Shard())}
		f := c18Evals(p)
		co := c18Coeffs(p, f)
		fresh := ipa.NewPrecomputedWeights()
		var err error
		s.Guard(func() {
			if j%2 == 0 {
				err = checkDivideOn(fresh, p, f, co, k)
			} else {
				err = checkEvaluateOn(fresh, p, f, co, big.NewInt(int64(256+k)))
			}
		})
		s.Rec.Eval(1)
		if err != nil {
			s.Violation("poly", c18Case{Poly: p, Mode: map[bool]string{true: "divide", false: "evaluate"}[j%2 == 0], K: k, Z: hx.HexBig(big.NewInt(int64(256 + k)))},
				fmt.Errorf("first call on a fresh PrecomputedWeights object: %w", err))
			break
		}
		s.Rec.Label("first_call_on_fresh_object")
	}
	s.Rec.NTEnum(0)
	// all 256 indices for a set of polynomials: one dense and one unit vector per shard, the monomial and a constant across shards
	polys := []polySpec{
		{Kind: "dense", Seed: uint64(100*hx.Seed() + hx.Shard())},
		{Kind: "onehot", Idx: []int{(37*hx.Shard() + 11*hx.Seed()) & 255}, Val: "1"},
		{Kind: "monomial255"},
	}
	if hx.Thorough() {
		for j := 0; j < 3; j++ {
			polys = append(polys, polySpec{Kind: "dense", Seed: uint64(9000 + 100*hx.Seed() + 16*j + hx.Shard())},
				polySpec{Kind: "onehot", Idx: []int{(hx.Shard()*16 + j*5 + hx.Seed()) & 255}, Val: hx.HexBig(rMinus1)})
		}
		polys = append(polys, polySpec{Kind: "max"}, polySpec{Kind: "sparse", Seed: uint64(hx.Shard()), Idx: []int{0, 255, 128, hx.Shard()}})
	}
	complete := true
	for pi, p := range polys {
		f := c18Evals(p)
		co := c18Coeffs(p, f)
		// in the quick tier the 256 indices of the shared monomial are split over the shards; own polynomials get all 256
		for k := 0; k < 256; k++ {
			if p.Kind == "monomial255" && !hx.Sharded(k) {
				continue
			}
			if s.Failed() || s.Aborted() {
				complete = false
				break
			}
			var err error
			if !s.Guard(func() { err = checkDivide(p, f, co, k) }) {
				complete = false
				break
			}
			s.Rec.Eval(1)
			s.Rec.NTEnum(1)
			if err != nil {
				s.Violation("poly", c18Case{Poly: p, Mode: "divide", K: k}, err)
				complete = false
				break
			}
		}
		for _, zh := range []string{"100", "101", "10000000000000000", hx.HexBig(rMinus1), hx.HexBig(hx.ExpandFr(uint64(pi+hx.Shard()), "c18z", 0))} {
			c18Part.EvalCase(s, c18Case{Poly: p, Mode: "evaluate", Z: zh})
		}
	}
	// all 512 + 510 table entries (partitioned over shards)
	for i := 0; i < 512; i++ {
		if hx.Sharded(i) {
			c18Table.EvalCase(s, c18TableCase{Table: "weights", Index: i})
		}
	}
	for i := 0; i < 510; i++ {
		if hx.Sharded(i) {
			c18Table.EvalCase(s, c18TableCase{Table: "inverted", Index: i})
		}
	}
	// concurrent FIRST use of freshly constructed weights objects (6 goroutines per object, barrier-aligned)
	if hx.Thorough() || hx.Shard()%4 == 1 {
		s.Guard(func() {
			pz := polySpec{Kind: "dense", Seed: uint64(31 + hx.Shard())}
			fz := c18Evals(pz)
			coz := c18Coeffs(pz, fz)
			zs := []*big.Int{big.NewInt(256), big.NewInt(257), new(big.Int).Set(rMinus1), hx.ExpandFr(uint64(hx.Seed()), "c18cz", 0), big.NewInt(300), big.NewInt(70000)}
			wants := make([]*big.Int, len(zs))
			for i, z := range zs {
				wants[i] = ref.Horner(coz, z)
			}
			for trial := 0; trial < hx.Pick(300, 3000) && !s.Failed(); trial++ {
				fresh := ipa.NewPrecomputedWeights()
				var wg sync.WaitGroup
				got := make([][]fr.Element, len(zs))
				start := make(chan struct{})
				for g := range zs {
					wg.Add(1)
					go func(g int) {
						defer wg.Done()
						<-start
						got[g] = fresh.ComputeBarycentricCoefficients(hx.FrFromBig(zs[g]))
					}(g)
				}
				close(start)
				wg.Wait()
				s.Rec.Eval(len(zs))
				for g := range zs {
					if len(got[g]) != 256 || ref.FrInner(fz, hx.FrSliceToBig(got[g])).Cmp(wants[g]) != 0 {
						s.Violation("poly", c18Case{Poly: pz, Mode: "evaluate", Z: hx.HexBig(zs[g])},
							fmt.Errorf("concurrent first use of a fresh PrecomputedWeights object (trial %d, goroutine %d): <f, coeffs(z=%s)> != p(z)", trial, g, zs[g].Text(16)))
						return
					}
				}
			}
			s.Rec.Label("concurrent_first_use_of_fresh_objects")
		})
	}
	s.Rec.Extra("exhaustive", complete && !s.Failed())
	s.Rec.Extra("exhaustive_subdomain", "all 512+510 table entries; all 256 division indices for every listed polynomial")
	c18Part.Run(s, hx.PerShard(hx.Pick(640, 9600)))
}
