//go:build verif && verif_elem

package props

import (
	"fmt"
	"math/big"
	"testing"

	"github.com/crate-crypto/go-ipa/bandersnatch"
	"github.com/crate-crypto/go-ipa/bandersnatch/fr"
	"github.com/crate-crypto/go-ipa/banderwagon"
	"pgregory.net/rapid"

	"verif/harness/hx"
	"verif/harness/ref"
)

// C08 — group operations implement the prime-order Banderwagon group law.

type elemSpec struct {
	Src    string `json:"src"` // identity | torsion | gen | neggen | crs | mulgen | sum
	N      int    `json:"n,omitempty"`
	Seed   uint64 `json:"seed,omitempty"`
	Rep    int    `json:"rep,omitempty"` // bit0 rescale, bit1 flip
	Lambda uint64 `json:"lambda,omitempty"`
}

func (e elemSpec) point() hx.RPt {
	var p hx.RPt
	switch e.Src {
	case "identity":
		p = hx.G.Identity()
	case "torsion": // the other representative of the identity class, (0,-1)
		p = hx.Flip(hx.G.Identity())
	case "gen":
		p = hx.G.Generator()
	case "neggen":
		p = hx.G.Neg(hx.G.Generator())
	case "crs":
		p = hx.G.CRS()[e.N&255]
	case "mulgen":
		p = hx.G.Mul(hx.G.Generator(), hx.ExpandFr(e.Seed, "c08mg", 0))
	case "small":
		p = hx.G.Mul(hx.G.Generator(), big.NewInt(int64(e.N%50)))
	case "sum":
		p = hx.G.Add(hx.G.CRS()[e.N&255], hx.G.Mul(hx.G.Generator(), hx.ExpandFr(e.Seed, "c08s", 0)))
	default:
		panic(hx.Inconclusive{Msg: "unknown element source " + e.Src})
	}
	return hx.Rep(p, e.Rep, e.Lambda)
}

func genElem(t *rapid.T, label string) elemSpec {
	e := elemSpec{Src: rapid.SampledFrom([]string{"identity", "torsion", "gen", "neggen", "crs", "mulgen", "mulgen", "small", "sum"}).Draw(t, label+"_src")}
	e.N = rapid.IntRange(0, 255).Draw(t, label+"_n")
	e.Seed = rapid.Uint64().Draw(t, label+"_seed")
	e.Rep = rapid.IntRange(0, 3).Draw(t, label+"_rep")
	if e.Rep&1 != 0 {
		e.Lambda = rapid.Uint64().Draw(t, label+"_lambda")
	}
	return e
}

type c08Case struct {
	Op    string     `json:"op"`
	P     elemSpec   `json:"p"`
	Q     elemSpec   `json:"q"`
	S     scalarSpec `json:"s"`
	T     scalarSpec `json:"t"`
	Edge  int        `json:"edge"` // >= 0: use the GLV edge scalar with this index instead of S
	Alias string     `json:"alias"`
	Noise uint64     `json:"noise,omitempty"`
	Recv  string     `json:"recv,omitempty"`  // what a fresh (non-aliased) receiver holds before the call
	Rel   string     `json:"rel,omitempty"`   // Q derived from P (held in its own object, in Q's representation): same | neg | double | triple | plus_gen
	RelS  string     `json:"rel_s,omitempty"` // T derived from S: neg (s+t = r) | same | neg_plus1
}

var c08Ops = []string{"add", "sub", "double", "neg", "mul", "mul", "addmixed", "set", "setidentity", "laws", "laws"}
var c08Alias = []string{"fresh", "recv=p1", "recv=p2", "p1=p2", "all"}

func genC08(t *rapid.T) c08Case {
	c := c08Case{
		Op: rapid.SampledFrom(c08Ops).Draw(t, "op"), P: genElem(t, "p"), Q: genElem(t, "q"),
		S: genScalar(t, "s", []int{2, 8, 16}), T: genScalar(t, "t", []int{2, 8, 16}), Edge: -1,
		Alias: rapid.SampledFrom(c08Alias).Draw(t, "alias"),
		Noise: noiseSeedFrom(rapid.Uint64().Draw(t, "noise")) & ^uint64(6), // a quarter of the cases, light noise only
		Recv:  rapid.SampledFrom([]string{"crs", "identity", "torsion", "zero", "mulgen", "self_sub"}).Draw(t, "recv"),
	}
	if rapid.IntRange(0, 2).Draw(t, "use_edge") == 0 {
		c.Edge = rapid.IntRange(0, len(glvEdgeScalars())-1).Draw(t, "edge")
	}
	if rapid.IntRange(0, 2).Draw(t, "related") == 0 { // operands that stand in a relation to one another
		c.Rel = rapid.SampledFrom([]string{"same", "neg", "neg", "double", "triple", "plus_gen"}).Draw(t, "rel")
	}
	if rapid.IntRange(0, 3).Draw(t, "related_s") == 0 {
		c.RelS = rapid.SampledFrom([]string{"neg", "same", "neg_plus1"}).Draw(t, "rel_s")
	}
	return c
}

func (c c08Case) scalar() *big.Int {
	if c.Edge >= 0 {
		return glvEdgeScalars()[c.Edge%len(glvEdgeScalars())]
	}
	return c.S.value()
}

func evalC08(c c08Case, rec *hx.Rec) error {
	rec.Eval(1)
	rec.Sample(c)
	rec.Label("op="+c.Op, "alias="+c.Alias, "p="+c.P.Src, fmt.Sprintf("rep=%d", c.P.Rep))
	if c.Noise%8 == 1 {
		runNoise(c.Noise, 2, false)
	}
	rp, rq := c.P.point(), c.Q.point()
	s, t := c.scalar(), c.T.value()
	if c.Rel != "" {
		base := c.P
		base.Rep, base.Lambda = 0, 0
		b := base.point()
		switch c.Rel {
		case "neg":
			b = hx.G.Neg(b)
		case "double":
			b = hx.G.Add(b, b)
		case "triple":
			b = hx.G.Add(hx.G.Add(b, b), b)
		case "plus_gen":
			b = hx.G.Add(b, hx.G.Generator())
		}
		rq = hx.Rep(b, c.Q.Rep, c.Q.Lambda)
		rec.Label("rel=" + c.Rel + fmt.Sprintf("/qrep=%d", c.Q.Rep))
	}
	switch c.RelS {
	case "neg":
		t = ref.FrNeg(s)
	case "same":
		t = new(big.Int).Set(s)
	case "neg_plus1":
		t = ref.FrAdd(ref.FrNeg(s), big.NewInt(1))
	}
	p, q := hx.ToImpl(rp), hx.ToImpl(rq)
	p1, p2 := &p, &q
	recv := new(banderwagon.Element)
	switch c.Recv { // what the receiver object holds from "earlier calls"
	case "identity":
		recv.SetIdentity()
	case "torsion":
		*recv = hx.ToImpl(hx.Flip(hx.G.Identity()))
	case "zero":
	case "mulgen":
		*recv = hx.ToImpl(hx.Rep(hx.G.Mul(hx.G.Generator(), big.NewInt(12345)), 1, 9))
	case "self_sub":
		g := banderwagon.Generator
		recv.Sub(&g, &g)
	default:
		*recv = hx.ToImpl(hx.G.CRS()[7])
	}
	switch c.Alias {
	case "recv=p1":
		recv = p1
	case "recv=p2":
		recv = p2
	case "p1=p2":
		p2, rq = p1, rp
	case "all":
		p2, rq, recv = p1, rp, p1
	}
	sf := hx.FrFromBig(s)
	sfCopy := sf
	var want hx.RPt
	var res *banderwagon.Element
	perr := hx.Try(func() {
		switch c.Op {
		case "add":
			res, want = recv.Add(p1, p2), hx.G.Add(rp, rq)
		case "sub":
			res, want = recv.Sub(p1, p2), hx.G.Sub(rp, rq)
		case "double":
			res, want = recv.Double(p1), hx.G.Double(rp)
		case "neg":
			res, want = recv.Neg(p1), hx.G.Neg(rp)
		case "mul":
			res, want = recv.ScalarMul(p1, &sf), hx.G.Mul(rp, s)
		case "addmixed":
			x, y := hx.G.Affine(rq)
			var aff bandersnatch.PointAffine
			aff.X.SetBigInt(x)
			aff.Y.SetBigInt(y)
			res, want = recv.AddMixed(p1, aff), hx.G.Add(rp, rq)
		case "set":
			res, want = recv.Set(p1), rp
		case "setidentity":
			res, want = recv.SetIdentity(), hx.G.Identity()
		}
	})
	if perr != nil {
		return perr
	}
	if c.Op != "laws" {
		if res != recv {
			return fmt.Errorf("%s did not return its receiver", c.Op)
		}
		got := hx.FromImpl(res)
		if !hx.G.IsValid(got) {
			return fmt.Errorf("%s(%+v, %+v, s=%s, alias=%s) produced an invalid triple (X=%s Y=%s Z=%s)", c.Op, c.P, c.Q, s.Text(16), c.Alias,
				got.X.String(), got.Y.String(), got.Z.String())
		}
		if !hx.G.Equal(got, want) {
			return fmt.Errorf("%s(%+v, %+v, s=%s, alias=%s) differs from the reference group law", c.Op, c.P, c.Q, s.Text(16), c.Alias)
		}
		if c.Op == "set" && !hx.SameTriple(got, rp) {
			return fmt.Errorf("Set did not copy the representation")
		}
		// operands that are not the receiver must be unchanged bit for bit
		if now := hx.FromImpl(p1); recv != p1 && (!hx.G.IsValid(now) || !hx.G.Equal(now, rp)) {
			return fmt.Errorf("%s changed the group element held by its first operand", c.Op)
		}
		if now := hx.FromImpl(p2); recv != p2 && p2 != p1 && (!hx.G.IsValid(now) || !hx.G.Equal(now, rq)) {
			return fmt.Errorf("%s changed the group element held by its second operand", c.Op)
		}
		if sf != sfCopy {
			return fmt.Errorf("ScalarMul modified its scalar")
		}
		// cross-check a sample on the math/big backend
		if hx.Hash64(fmt.Sprint(c))%16 == 0 && (c.Op == "mul" || c.Op == "add") {
			bp := ref.Convert(hx.G, ref.Big, rp)
			var bw ref.Pt[*big.Int]
			if c.Op == "mul" {
				bw = ref.Big.Mul(bp, s)
			} else {
				bw = ref.Big.Add(bp, ref.Convert(hx.G, ref.Big, rq))
			}
			if !ref.Big.Equal(bw, ref.Convert(hx.G, ref.Big, want)) {
				panic(hx.Inconclusive{Msg: "reference backends disagree"})
			}
			rec.Label("bigint_crosscheck")
		}
	} else {
		// algebraic laws, computed with go-ipa and compared with the reference's equality
		tf := hx.FrFromBig(t)
		var st fr.Element
		st.Add(&sf, &tf)
		var a, b, cc, d, e banderwagon.Element
		lawErr := hx.Try(func() {
			a.ScalarMul(p1, &st)
			b.ScalarMul(p1, &sf)
			cc.ScalarMul(p1, &tf)
			d.Add(&b, &cc)
		})
		if lawErr != nil {
			return lawErr
		}
		if !hx.G.Equal(hx.FromImpl(&a), hx.FromImpl(&d)) || !hx.G.IsValid(hx.FromImpl(&a)) || !hx.G.IsValid(hx.FromImpl(&d)) {
			return fmt.Errorf("(s+t)P != sP+tP for P=%+v s=%s t=%s", c.P, s.Text(16), t.Text(16))
		}
		if !hx.G.Equal(hx.FromImpl(&a), hx.G.Mul(rp, ref.FrAdd(s, t))) {
			return fmt.Errorf("(s+t)P differs from the reference for P=%+v s=%s t=%s", c.P, s.Text(16), t.Text(16))
		}
		e.Add(p1, p2)
		a.ScalarMul(&e, &sf)
		b.ScalarMul(p1, &sf)
		cc.ScalarMul(p2, &sf)
		d.Add(&b, &cc)
		if !hx.G.Equal(hx.FromImpl(&a), hx.FromImpl(&d)) || !hx.G.IsValid(hx.FromImpl(&a)) {
			return fmt.Errorf("s(P+Q) != sP+sQ for P=%+v Q=%+v s=%s", c.P, c.Q, s.Text(16))
		}
		zero, rm1 := hx.FrFromBig(big.NewInt(0)), hx.FrFromBig(rMinus1)
		a.ScalarMul(p1, &zero)
		if !hx.G.IsIdentity(hx.FromImpl(&a)) || !hx.G.IsValid(hx.FromImpl(&a)) {
			return fmt.Errorf("0*P is not the identity for P=%+v", c.P)
		}
		a.ScalarMul(p1, &rm1)
		a.Add(&a, p1)
		if !hx.G.IsIdentity(hx.FromImpl(&a)) || !hx.G.IsValid(hx.FromImpl(&a)) {
			return fmt.Errorf("(r-1)*P + P is not the identity for P=%+v", c.P)
		}
		a.Sub(p1, p1)
		if !hx.G.IsIdentity(hx.FromImpl(&a)) {
			return fmt.Errorf("P-P is not the identity for P=%+v", c.P)
		}
		id := banderwagon.Identity
		a.Add(p1, &id)
		if !hx.G.Equal(hx.FromImpl(&a), rp) {
			return fmt.Errorf("P+identity != P for P=%+v", c.P)
		}
		a.Add(p1, &b) // P + s*P with b possibly s*(identity)
		if !hx.G.Equal(hx.FromImpl(&a), hx.G.Mul(rp, ref.FrAdd(s, big.NewInt(1)))) {
			return fmt.Errorf("P + s*P != (s+1)*P for P=%+v s=%s", c.P, s.Text(16))
		}
	}
	if c.Alias != "fresh" || c.P.Rep != 0 || c.Edge >= 0 || c.P.Src == "identity" || c.P.Src == "torsion" {
		rec.NT(fmt.Sprint(c))
		rec.SampleNT(c)
	}
	return nil
}

var c08Part = hx.NewPart("C08", "ops", genC08, evalC08)

func TestC08(t *testing.T) {
	s := hx.Start(t, "C08")
	defer s.Finish()
	// deterministic sweep: every GLV edge scalar on both representatives of the identity class and on the generator
	if hx.Shard() == 0 {
		for i := range glvEdgeScalars() {
			for _, src := range []string{"identity", "torsion", "gen", "crs"} {
				for rep := 0; rep < 4; rep++ {
					c08Part.EvalCase(s, c08Case{Op: "mul", P: elemSpec{Src: src, Rep: rep, Lambda: 5}, Q: elemSpec{Src: "gen"}, S: scalarSpec{Kind: "one"}, T: scalarSpec{Kind: "one"}, Edge: i, Alias: "fresh"})
				}
			}
		}
	}
	c08Part.Run(s, hx.PerShard(hx.Pick(240000, 12000000)))
	c08Part.RunConcurrent(s, 8, hx.Pick(2500, 40000))
}
