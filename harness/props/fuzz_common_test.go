//go:build verif

package props

import (
	"encoding/json"
	"fmt"
	"os"
	"path/filepath"
	"testing"

	"verif/harness/hx"
)

func fuzzFail(t *testing.T, id, part string, c any, err error) {
	raw, _ := json.Marshal(c)
	rf := hx.ReplayFile{Property: id, Part: part, Error: err.Error(), Config: hx.RunConfig(), Case: raw}
	data, _ := json.MarshalIndent(rf, "", " ")
	if dir := os.Getenv("VERIF_OUT"); dir != "" {
		_ = os.WriteFile(filepath.Join(dir, fmt.Sprintf("replay-%s-%s-fuzz.json", id, part)), data, 0o644)
	}
	t.Fatalf("VIOLATION property=%s: %v", id, err)
}

var fuzzRec = func() *hx.Rec { s := hx.NewRecForFuzz(); return s }()
