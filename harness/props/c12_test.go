//go:build verif && verif_elem

package props

import (
	"bytes"
	"fmt"
	"math/big"
	"os"
	"path/filepath"
	"runtime"
	"sync"
	"testing"
	"time"

	multiproof "github.com/crate-crypto/go-ipa"
	"github.com/crate-crypto/go-ipa/bandersnatch/fr"
	"github.com/crate-crypto/go-ipa/banderwagon"
	"github.com/crate-crypto/go-ipa/common"
	"github.com/crate-crypto/go-ipa/ipa"
	"pgregory.net/rapid"

	"verif/harness/hx"
	"verif/harness/ref"
)

// C12 — a shared configuration can be used concurrently without interference.
//
// A plan (2..12 goroutines, each a sequence of 1..6 API calls on its own arguments) is executed
// sequentially, then concurrently from a start barrier; every call must return the same bytes. The
// binary is built with -race; any race report written while a plan runs fails that plan.

type c12Case struct {
	Plan [][]pcall `json:"plan"`
}

// c12SharedPW is a freshly constructed weights object that every goroutine of the concurrent phase uses for its
// "bary_fresh" calls (first use of lazily initialised per-object state under concurrency); in the sequential
// reference phase it is nil and each call builds its own object.
var c12SharedPW *ipa.PrecomputedWeights

var c12Ops = []string{"bary_fresh", "groupops", "commit", "multiprove", "multiprove", "multiverify", "ipa_in_domain", "ipa_out_domain", "multiscalar", "multiexp",
	"codec", "batch", "fr", "fr_canonical", "transcript", "mapfield"}

func c12OpKinds() []string {
	seen := map[string]bool{}
	var out []string
	for _, op := range c12Ops {
		if !seen[op] {
			seen[op] = true
			out = append(out, op)
		}
	}
	return out
}

func genC12(t *rapid.T) c12Case {
	g := rapid.IntRange(2, 12).Draw(t, "goroutines")
	var c c12Case
	if rapid.Bool().Draw(t, "symmetric") {
		// every goroutine runs the same kinds of call (own arguments): maximises simultaneous use of one code path
		n := rapid.IntRange(1, 3).Draw(t, "ncalls")
		ops := rapid.SliceOfN(rapid.SampledFrom(c12Ops), n, n).Draw(t, "ops")
		for i := 0; i < g; i++ {
			var seq []pcall
			for _, op := range ops {
				seq = append(seq, pcall{Op: op, Seed: rapid.Uint64().Draw(t, "seed"), N: rapid.IntRange(0, 40).Draw(t, "n"),
					K: rapid.IntRange(0, 255).Draw(t, "k"), Flag: rapid.Bool().Draw(t, "flag")})
			}
			c.Plan = append(c.Plan, seq)
		}
		return c
	}
	for i := 0; i < g; i++ {
		n := rapid.IntRange(1, 6).Draw(t, "ncalls")
		var seq []pcall
		for j := 0; j < n; j++ {
			seq = append(seq, pcall{Op: rapid.SampledFrom(c12Ops).Draw(t, "op"), Seed: rapid.Uint64().Draw(t, "seed"),
				N: rapid.IntRange(0, 40).Draw(t, "n"), K: rapid.IntRange(0, 255).Draw(t, "k"), Flag: rapid.Bool().Draw(t, "flag")})
		}
		c.Plan = append(c.Plan, seq)
	}
	return c
}

// c12Call executes one API call on arguments derived from the call spec only and returns its observable output.
func c12Call(c pcall) []byte {
	cfg := Cfg()
	var out bytes.Buffer
	switch c.Op {
	case "commit":
		f := hx.FrSliceFromBig(polySpec{Kind: []string{"dense", "sparse", "max"}[c.N%3], Seed: c.Seed, Idx: []int{c.K, 255 - c.K}}.evals())
		e := cfg.Commit(f)
		b := e.Bytes()
		out.Write(b[:])
	case "multiprove", "multiverify":
		set := openSet{Label: fmt.Sprintf("c12-%d", c.K%4)}
		np := 1 + c.N%3
		for i := 0; i < np; i++ {
			set.Polys = append(set.Polys, polySpec{Kind: []string{"dense", "sparse", "ramp"}[(c.K+i)%3], Seed: c.Seed + uint64(i), Idx: []int{c.K, 7}})
		}
		n := 1 + c.N%(2*runtime.NumCPU()+3)
		if n > 40 {
			n = 40
		}
		for i := 0; i < n; i++ {
			o := opening{Poly: i % np, Z: (c.K + 17*i) & 255}
			if c.Flag && i%3 == 2 {
				o.Z = c.K
			}
			set.Open = append(set.Open, o)
		}
		b, err := set.build()
		if err != nil {
			panic(err)
		}
		tr := common.NewTranscript(set.Label)
		proof, perr := multiproof.CreateMultiProof(tr, cfg, b.Cs, b.fs, b.zs)
		if perr != nil {
			return []byte("error:" + perr.Error())
		}
		_ = proof.Write(&out)
		if c.Op == "multiverify" {
			ok, verr := multiproof.CheckMultiProof(common.NewTranscript(set.Label), cfg, proof, b.Cs, b.ys, b.zs)
			fmt.Fprintf(&out, "|%v|%v", ok, verr)
		}
		st := tr.ChallengeScalar([]byte("s"))
		sb := st.Bytes()
		out.Write(sb[:])
	case "ipa_in_domain", "ipa_out_domain":
		f := hx.FrSliceFromBig(polySpec{Kind: []string{"dense", "sparse", "dense", "onehot"}[c.N%4], Seed: c.Seed, Idx: []int{c.K, (c.K + 100) & 255, 3}, Val: "7"}.evals())
		comm := cfg.Commit(f)
		zv := big.NewInt(int64(c.K))
		if c.Op == "ipa_out_domain" {
			zv = hx.ExpandFr(c.Seed, "c12z", 0)
		}
		z := hx.FrFromBig(zv)
		proof, perr := ipa.CreateIPAProof(common.NewTranscript("c12"), cfg, comm, f, z)
		if perr != nil {
			return []byte("error:" + perr.Error())
		}
		_ = proof.Write(&out)
		y := hx.FrFromBig(ref.EvalAt(hx.FrSliceToBig(f), zv))
		ok, verr := ipa.CheckIPAProof(common.NewTranscript("c12"), cfg, comm, proof, z, y)
		fmt.Fprintf(&out, "|%v|%v", ok, verr)
	case "multiscalar":
		k := 1 + c.K
		sc := hx.FrSliceFromBig(polySpec{Kind: "dense", Seed: c.Seed}.evals())[:k]
		e, err := ipa.MultiScalar(cfg.SRS[:k], sc)
		b := e.Bytes()
		out.Write(b[:])
		fmt.Fprint(&out, err)
	case "multiexp":
		n := 1 + c.N*8
		if c.Flag {
			n += 257 + int(c.Seed%200) // more than 256 points, a size that is most likely new to the process
		}
		pts := make([]banderwagon.Element, n)
		sc := make([]fr.Element, n)
		for i := range pts {
			pts[i] = cfg.SRS[(c.K+i)&255]
			v := hx.ExpandFr(c.Seed, "c12sc", i)
			if i%5 == 0 {
				v = big.NewInt(int64(i%13 + 1))
			}
			sc[i] = hx.FrFromBig(v)
		}
		var res banderwagon.Element
		res.SetIdentity()
		_, err := res.MultiExp(pts, sc, banderwagon.MultiExpConfig{NbTasks: []int{0, 1, 3, 64}[c.K%4], ScalarsMont: true})
		b := res.Bytes()
		out.Write(b[:])
		fmt.Fprint(&out, err)
		// tiny MSMs under a task count above the number of windows (more splits than points), as a many-core host runs them
		for _, tiny := range []int{1, 2, 3} {
			var r2 banderwagon.Element
			r2.SetIdentity()
			_, err2 := r2.MultiExp(pts[:minInt(tiny, n)], sc[:minInt(tiny, n)], banderwagon.MultiExpConfig{NbTasks: []int{65, 100, 128, 200, 1024}[(c.K+tiny)%5], ScalarsMont: true})
			b2 := r2.Bytes()
			out.Write(b2[:])
			fmt.Fprint(&out, err2)
		}
	case "codec":
		e := cfg.SRS[c.K]
		var sc fr.Element
		sc = hx.FrFromBig(hx.ExpandFr(c.Seed, "c12c", 0))
		e.ScalarMul(&e, &sc)
		b := e.Bytes()
		var d banderwagon.Element
		err := d.SetBytes(b[:])
		u := d.BytesUncompressedTrusted()
		var d2 banderwagon.Element
		err2 := d2.SetBytesUncompressed(u[:], c.Flag)
		out.Write(b[:])
		out.Write(u[:])
		fmt.Fprint(&out, err, err2, d.Equal(&e), d2.Equal(&e))
	case "batch":
		n := c.N % 20
		objs := make([]banderwagon.Element, n)
		list := make([]*banderwagon.Element, n)
		for i := range objs {
			objs[i].Add(&cfg.SRS[(c.K+i)&255], &cfg.SRS[(c.K+2*i+1)&255])
			list[i] = &objs[i]
		}
		for _, b := range banderwagon.ElementsToBytes(list...) {
			out.Write(b[:])
		}
		if c.Flag && n > 3 { // the same projective element several times, far apart in the list
			list[n-1], list[n/2] = list[0], list[0]
		}
		res := make([]*fr.Element, len(list))
		for i := range res {
			res[i] = new(fr.Element)
		}
		_ = banderwagon.BatchMapToScalarField(res[:len(res)/2], list) // length mismatch: must fail cleanly
		if err := banderwagon.BatchMapToScalarField(res, list); err == nil {
			for _, r := range res {
				rb := r.Bytes()
				out.Write(rb[:])
			}
		}
		_ = banderwagon.BatchNormalize(list)
		for _, b := range banderwagon.BatchToBytesUncompressed(list...) {
			out.Write(b[:])
		}
	case "fr", "fr_canonical":
		for i := 0; i < 20; i++ {
			v := hx.ExpandFr(c.Seed, "c12fr", i)
			buf := ref.LE32(v)
			var e fr.Element
			if c.Op == "fr" {
				e.SetBytesLE(buf)
				e.SetBytes(buf)
			} else {
				if i%3 == 0 {
					buf = ref.LE32(new(big.Int).Add(ref.R, big.NewInt(int64(i)))) // rejected: the early-return path
				}
				_, err := e.SetBytesLECanonical(buf)
				_, err2 := common.ReadScalar(bytes.NewReader(buf))
				fmt.Fprint(&out, err, err2)
			}
			out.WriteString(e.String())
			var bi big.Int
			e.ToBigIntRegular(&bi)
			out.Write(bi.Bytes())
			var x fr.Element
			x.Exp(e, big.NewInt(int64(3+i)))
			xb := x.Bytes()
			out.Write(xb[:])
		}
	case "transcript":
		tr := common.NewTranscript("c12t")
		for i := 0; i < 1+c.N%6; i++ {
			sc := hx.FrFromBig(hx.ExpandFr(c.Seed, "c12ts", i))
			// labels are windows of ONE table shared (read-only) by every goroutine, with spare capacity behind each window
			tr.AppendScalar(&sc, c12LabelTable[0:1])
			tr.AppendPoint(&cfg.SRS[(c.K+i)&255], c12LabelTable[1:2])
			ch := tr.ChallengeScalar(c12LabelTable[2:3])
			b := ch.Bytes()
			out.Write(b[:])
		}
	case "bary_fresh":
		pw := c12SharedPW
		if pw == nil {
			pw = ipa.NewPrecomputedWeights()
		}
		z := hx.FrFromBig(big.NewInt(int64(256 + c.K + 1000*(c.N%3))))
		for _, e := range pw.ComputeBarycentricCoefficients(z) {
			eb := e.Bytes()
			out.Write(eb[:])
		}
		f := hx.FrSliceFromBig(polySpec{Kind: "sparse", Seed: c.Seed, Idx: []int{c.K, 3}}.evals())
		for _, e := range pw.DivideOnDomain(uint8(1+c.K%255), f) {
			eb := e.Bytes()
			out.Write(eb[:])
		}
	case "groupops": // many small group operations on private elements
		a, b := cfg.SRS[c.K], cfg.SRS[(c.K+9)&255]
		s := hx.FrFromBig(hx.ExpandFr(c.Seed, "c12g", 0))
		var acc banderwagon.Element
		acc.SetIdentity()
		for i := 0; i < 300; i++ {
			var t banderwagon.Element
			t.Sub(&a, &b)
			acc.Add(&acc, &t)
			a.Double(&a)
			b.Neg(&b)
			if i%50 == 0 {
				t.ScalarMul(&acc, &s)
				acc.Sub(&t, &a)
			}
		}
		ab := acc.Bytes()
		out.Write(ab[:])
	case "mapfield":
		var sc fr.Element
		e := cfg.SRS[c.K]
		e.Double(&e)
		e.MapToScalarField(&sc)
		b := sc.Bytes()
		out.Write(b[:])
	default:
		panic(hx.Inconclusive{Msg: "unknown call " + c.Op})
	}
	return out.Bytes()
}

func raceLogSize() int64 {
	dir := os.Getenv("VERIF_OUT")
	if dir == "" {
		return 0
	}
	files, _ := filepath.Glob(filepath.Join(dir, fmt.Sprintf("race-%d.*", hx.Shard())))
	var n int64
	for _, f := range files {
		if st, err := os.Stat(f); err == nil {
			n += st.Size()
		}
	}
	return n
}

func raceLogText() string {
	files, _ := filepath.Glob(filepath.Join(os.Getenv("VERIF_OUT"), fmt.Sprintf("race-%d.*", hx.Shard())))
	var b []byte
	for _, f := range files {
		d, _ := os.ReadFile(f)
		b = append(b, d...)
	}
	if len(b) > 3000 {
		b = b[:3000]
	}
	return string(b)
}

func evalC12(c c12Case, rec *hx.Rec) error {
	Cfg()
	rec.Eval(1)
	rec.Sample(c)
	raceBefore := raceLogSize() // a race between the internal worker goroutines of ONE call counts as well
	// Half of the plans run their concurrent phase FIRST, on whatever lazily initialised or memoised state the process
	// has at that moment, and the sequential "alone" reference afterwards: a reference computed first would warm such
	// state and hide a first-use race.
	concFirst := hx.Hash64(fmt.Sprint(c.Plan))%2 == 0
	gmp := runtime.GOMAXPROCS(0)
	defer runtime.GOMAXPROCS(gmp)
	want := make([][][]byte, len(c.Plan))
	runSeq := func() error {
		runtime.GOMAXPROCS(runtime.NumCPU()) // alone, under the default scheduler setting
		c12SharedPW = nil
		for g, seq := range c.Plan {
			for _, call := range seq {
				var o []byte
				if perr := hx.Try(func() { o = c12Call(call) }); perr != nil {
					return fmt.Errorf("sequential run of %s: %w", call.Op, perr)
				}
				want[g] = append(want[g], o)
			}
		}
		return nil
	}
	if !concFirst {
		if err := runSeq(); err != nil {
			return err
		}
	}
	runtime.GOMAXPROCS(gmp) // the concurrent phase uses this process's GOMAXPROCS value (1, 2, 4, 16 ... set by the driver)
	c12SharedPW = ipa.NewPrecomputedWeights()
	defer func() { c12SharedPW = nil }()
	got := make([][][]byte, len(c.Plan))
	errs := make([]error, len(c.Plan))
	start := make(chan struct{})
	var wg sync.WaitGroup
	returned, deadlock, dump, perr := hx.Watchdog(20*time.Minute, func() {
		for g := range c.Plan {
			wg.Add(1)
			go func(g int) {
				defer wg.Done()
				<-start
				for _, call := range c.Plan[g] {
					var o []byte
					if e := hx.Try(func() { o = c12Call(call) }); e != nil {
						errs[g] = fmt.Errorf("goroutine %d, %s: %w", g, call.Op, e)
						return
					}
					got[g] = append(got[g], o)
				}
			}(g)
		}
		close(start)
		wg.Wait()
	})
	if !returned {
		if deadlock {
			return fmt.Errorf("concurrent plan did not finish (deadlock signature): %s", dump)
		}
		panic(hx.Inconclusive{Msg: "concurrent plan exceeded the watchdog: " + dump})
	}
	if perr != nil {
		return perr
	}
	if concFirst {
		if err := runSeq(); err != nil {
			return err
		}
		rec.Label("concurrent_phase_first")
	}
	for g := range c.Plan {
		if errs[g] != nil {
			return errs[g]
		}
		for i := range c.Plan[g] {
			if !bytes.Equal(got[g][i], want[g][i]) {
				return fmt.Errorf("goroutine %d call %d (%s) returned different bytes when run concurrently with %d other goroutines (GOMAXPROCS=%d) than when run alone",
					g, i, c.Plan[g][i].Op, len(c.Plan)-1, gmp)
			}
		}
	}
	time.Sleep(10 * time.Millisecond)
	if raceLogSize() != raceBefore {
		return fmt.Errorf("the race detector reported a data race while the plan ran (GOMAXPROCS=%d):\n%s", gmp, raceLogText())
	}
	heavy := 0
	for _, seq := range c.Plan {
		for _, call := range seq {
			if call.Op == "multiprove" || call.Op == "multiverify" || call.Op == "multiexp" || call.Op == "multiscalar" || call.Op == "ipa_in_domain" || call.Op == "ipa_out_domain" {
				heavy++
				break
			}
		}
	}
	rec.Label(fmt.Sprintf("gomaxprocs=%d", gmp))
	if len(c.Plan) >= 2 && heavy >= 2 {
		rec.NT(fmt.Sprint(c), gmp)
		rec.SampleNT(c)
	}
	return nil
}

var c12Part = hx.NewPart("C12", "plan", genC12, evalC12)

var c12LabelTable = append(make([]byte, 0, 512), "spc"...)

func TestC12(t *testing.T) {
	s := hx.Start(t, "C12")
	defer s.Finish()
	if !s.Guard(func() { Cfg() }) {
		return
	}
	// a fixed plan that exercises every kind of call at once, then generated plans
	var fixed c12Case
	for i, op := range c12Ops {
		fixed.Plan = append(fixed.Plan, []pcall{{Op: op, Seed: uint64(i + 100*hx.Shard()), N: 5 + i, K: 20 + i, Flag: i%2 == 0},
			{Op: c12Ops[(i+3)%len(c12Ops)], Seed: uint64(i + 7), N: 9, K: 200 - i}})
	}
	c12Part.EvalCase(s, fixed)
	// one symmetric plan per kind of call (8 goroutines, the same call twice each, own arguments); the quick tier splits
	// the kinds over the shards (one shard per GOMAXPROCS value), the thorough tier runs every kind in every shard
	for i, op := range c12OpKinds() {
		if !hx.Thorough() && !hx.Sharded(i) {
			continue
		}
		var sym c12Case
		for g := 0; g < 8; g++ {
			sym.Plan = append(sym.Plan, []pcall{{Op: op, Seed: uint64(1000*hx.Seed() + 10*g), N: 3 + g, K: 10 + 7*g, Flag: g%2 == 0},
				{Op: op, Seed: uint64(77 + g), N: 1 + g, K: 200 - g}})
		}
		c12Part.EvalCase(s, sym)
	}
	c12Part.Run(s, hx.Pick(8, 40))
}
