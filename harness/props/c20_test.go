//go:build verif

package props

import (
	"fmt"
	"math"
	"runtime"
	"sort"
	"sync"
	"sync/atomic"
	"testing"
	"time"

	"github.com/crate-crypto/go-ipa/common/parallel"
	"pgregory.net/rapid"

	"verif/harness/hx"
)

// C20 — the parallel range splitter covers every index exactly once.

type c20Case struct {
	N      int   `json:"n"`
	M      int   `json:"m"`                // 0 = default (runtime.NumCPU())
	Delays []int `json:"delays,omitempty"` // per-invocation delay classes: 0 none, 1 Gosched x k, 2 short sleep
}

type rng struct{ start, end int }

// iteration counts far beyond the enumerated grid (around powers of two and of ten, up to 2^62)
var c20LargeN = func() []int {
	var out []int
	for _, v := range []int64{4096, 65536, 1000000, 1 << 24, 1<<31 - 1, 1 << 31, 1 << 32, 1<<32 + 4099, 1 << 40, 1<<53 + 1, 1 << 62} {
		if v <= int64(math.MaxInt-8) { // (a 32-bit build keeps the sizes its int can hold)
			out = append(out, int(v))
		}
	}
	return out
}()

func evalC20(c c20Case, rec *hx.Rec) error {
	var mu sync.Mutex
	var ranges []rng
	var started, finished int64
	work := func(a, b int) {
		k := atomic.AddInt64(&started, 1)
		mu.Lock()
		ranges = append(ranges, rng{a, b})
		mu.Unlock()
		if len(c.Delays) > 0 {
			switch d := c.Delays[int(k)%len(c.Delays)]; {
			case d == 1:
				for i := 0; i < 20; i++ {
					runtime.Gosched()
				}
			case d >= 2:
				time.Sleep(time.Duration(d*50) * time.Microsecond)
			}
		}
		atomic.AddInt64(&finished, 1)
	}
	returned, deadlock, dump, perr := hx.Watchdog(2*time.Minute, func() {
		if c.M == 0 {
			parallel.Execute(c.N, work)
		} else {
			parallel.Execute(c.N, work, c.M)
		}
	})
	if !returned {
		if deadlock || hx.Responsive(5*time.Second) {
			return fmt.Errorf("Execute(n=%d, m=%d) did not return within 2 minutes while the process stayed responsive: %s", c.N, c.M, dump)
		}
		panic(hx.Inconclusive{Msg: "Execute exceeded the watchdog on an unresponsive machine: " + dump})
	}
	if perr != nil {
		return fmt.Errorf("Execute(n=%d, m=%d): %w", c.N, c.M, perr)
	}
	st, fin := atomic.LoadInt64(&started), atomic.LoadInt64(&finished)
	if fin != st {
		return fmt.Errorf("Execute(n=%d, m=%d) returned while %d of %d invocations were still running", c.N, c.M, st-fin, st)
	}
	time.Sleep(0)
	if st2 := atomic.LoadInt64(&started); st2 != st {
		return fmt.Errorf("Execute(n=%d, m=%d): an invocation started after Execute returned", c.N, c.M)
	}
	m := c.M
	if m == 0 {
		m = runtime.NumCPU()
	}
	limit := m
	if c.N < limit {
		limit = c.N
	}
	mu.Lock()
	rs := append([]rng(nil), ranges...)
	mu.Unlock()
	if len(rs) > limit {
		return fmt.Errorf("Execute(n=%d, m=%d) started %d invocations, more than min(n, m) = %d", c.N, c.M, len(rs), limit)
	}
	sort.Slice(rs, func(i, j int) bool { return rs[i].start < rs[j].start })
	pos := 0
	for _, r := range rs {
		if r.start >= r.end {
			return fmt.Errorf("Execute(n=%d, m=%d) passed the empty or inverted range [%d,%d)", c.N, c.M, r.start, r.end)
		}
		if r.start < 0 || r.end > c.N {
			return fmt.Errorf("Execute(n=%d, m=%d) passed the out-of-bounds range [%d,%d)", c.N, c.M, r.start, r.end)
		}
		if r.start != pos {
			return fmt.Errorf("Execute(n=%d, m=%d): ranges %v are not contiguous and disjoint (gap or overlap at %d)", c.N, c.M, rs, pos)
		}
		pos = r.end
	}
	if pos != c.N {
		return fmt.Errorf("Execute(n=%d, m=%d): ranges cover [0,%d) instead of [0,%d)", c.N, c.M, pos, c.N)
	}
	return nil
}

var c20Part = hx.NewPart("C20", "split", func(t *rapid.T) c20Case {
	c := c20Case{N: rapid.IntRange(0, 2048).Draw(t, "n"), M: rapid.IntRange(0, 300).Draw(t, "m")}
	if rapid.Bool().Draw(t, "small") {
		c.N = rapid.IntRange(0, 40).Draw(t, "n_small")
		c.M = rapid.IntRange(0, 40).Draw(t, "m_small")
	}
	if rapid.IntRange(0, 7).Draw(t, "large") == 0 { // sizes far beyond the grid: the check only looks at the ranges, so n is free
		c.N = c20LargeN[rapid.IntRange(0, len(c20LargeN)-1).Draw(t, "n_large")] + rapid.IntRange(-2, 2).Draw(t, "n_delta")
		c.M = rapid.SampledFrom([]int{0, 1, 2, 3, 7, 15, 16, 17, 64, 255, 256, 257, 1000, 4099}).Draw(t, "m_large")
	}
	c.Delays = rapid.SliceOfN(rapid.IntRange(0, 3), 0, 8).Draw(t, "delays")
	return c
}, func(c c20Case, rec *hx.Rec) error {
	rec.Eval(1)
	rec.Sample(c)
	if err := evalC20(c, rec); err != nil {
		return err
	}
	if len(c.Delays) > 0 {
		rec.Label("with_delays")
	}
	if c.N > 2048 {
		rec.Label("n>2048")
	}
	if c.M == 0 {
		rec.Label("default_m")
	}
	m := c.M
	if m == 0 {
		m = runtime.NumCPU()
	}
	if c.N > m && c.N%m != 0 {
		rec.NT(c.N, c.M, len(c.Delays) > 0, runtime.NumCPU())
		rec.SampleNT(c)
	}
	return nil
})

func TestC20(t *testing.T) {
	s := hx.Start(t, "C20")
	defer s.Finish()
	// exhaustive grid, partitioned over shards by n; quick: n in 0..512 x m in 1..64 plus a seed-selected band of the full grid
	maxN, maxM := 2048, 300 // [as built] the full grid costs a few seconds on 16 cores, so both tiers enumerate it
	bandLo := (hx.Seed() * 97) % 1900
	checks, nt := 0, 0
	complete := true
	grid := func(n, m int) bool {
		c := c20Case{N: n, M: m}
		var err error
		if !s.Guard(func() { err = evalC20(c, s.Rec) }) {
			return false
		}
		checks++
		mm := m
		if mm == 0 {
			mm = runtime.NumCPU()
		}
		if n > mm && n%mm != 0 {
			nt++
		}
		if err != nil {
			s.Violation("split", c, err)
			return false
		}
		return true
	}
outer:
	for n := 0; n <= 2048; n++ {
		if !hx.Sharded(n) {
			continue
		}
		inQuick := n <= maxN
		inBand := !hx.Thorough() && n >= bandLo && n < bandLo+48
		for m := 1; m <= 300; m++ {
			if (inQuick && m <= maxM) || inBand || hx.Thorough() {
				if !grid(n, m) {
					complete = false
					break outer
				}
			}
		}
		// default worker limit under this process's CPU count
		if !grid(n, 0) {
			complete = false
			break
		}
	}
	s.Rec.Eval(checks)
	s.Rec.NTEnum(nt)
	s.Rec.LabelN("grid_pairs", checks)
	s.Rec.Extra("exhaustive", complete)
	if hx.Thorough() {
		s.Rec.Extra("exhaustive_subdomain", "all (n, m) with n in 0..2048, m in 1..300, plus the default worker limit for every n")
	} else {
		s.Rec.Extra("exhaustive_subdomain", "all (n, m) with n in 0..2048, m in 1..300, plus the default worker limit for every n")
	}
	for i, n := range c20LargeN { // forced: every large size with a small, a non-dividing and a huge worker limit
		for j, m := range []int{0, 1, 3, 16, 17, 257, 4099} {
			if hx.Sharded(i*7 + j) {
				c20Part.EvalCase(s, c20Case{N: n + j - 3, M: m})
			}
		}
	}
	c20Part.Run(s, hx.PerShard(hx.Pick(8000, 3200000)))
}
