//go:build verif && verif_elem

package props

import (
	"bytes"
	"fmt"
	"io"
	"math/big"
	"testing"
	"testing/iotest"

	multiproof "github.com/crate-crypto/go-ipa"
	"github.com/crate-crypto/go-ipa/banderwagon"
	"github.com/crate-crypto/go-ipa/common"
	"github.com/crate-crypto/go-ipa/ipa"
	"pgregory.net/rapid"

	"verif/harness/hx"
	"verif/harness/ref"
)

// C06 — untrusted point decoding accepts exactly canonical subgroup encodings.

type c06Case struct {
	Form  string `json:"form"`  // compressed | uncompressed | readpoint
	Bytes string `json:"bytes"` // hex
	Class string `json:"class"` // generator class (informational)
	Chunk int    `json:"chunk,omitempty"`
	Noise uint64 `json:"noise,omitempty"`
}

// clauses evaluates every clause of the acceptance predicate that can be evaluated.
func c06Clauses(form string, b []byte) (failed []string) {
	want := 32
	if form == "uncompressed" {
		want = 64
	}
	if form == "readpoint" {
		if len(b) < 32 {
			return []string{"length"}
		}
		b = b[:32]
	} else if len(b) != want {
		return []string{"length"}
	}
	x := new(big.Int).SetBytes(b[:32])
	if x.Cmp(ref.P) >= 0 {
		failed = append(failed, "canonical_x")
		x.Mod(x, ref.P)
	}
	y := ref.YFromX(x)
	if y == nil {
		failed = append(failed, "on_curve")
	}
	if !ref.SubgroupOK(x) {
		failed = append(failed, "subgroup")
	}
	if form == "uncompressed" {
		yin := new(big.Int).SetBytes(b[32:])
		if yin.Cmp(ref.P) >= 0 {
			failed = append(failed, "canonical_y")
			yin.Mod(yin, ref.P)
		}
		if y != nil && yin.Cmp(y) != 0 {
			failed = append(failed, "y_choice")
		}
	}
	return failed
}

func refPointFromSeed(seed uint64) hx.RPt {
	switch seed % 5 {
	case 0:
		return hx.G.CRS()[seed/5%256]
	case 1:
		return hx.G.Mul(hx.G.Generator(), big.NewInt(int64(seed/5%1000)))
	default:
		return hx.G.Mul(hx.G.Generator(), hx.ExpandFr(seed, "c06pt", 0))
	}
}

// findX searches the seed stream for an x with the requested curve/subgroup status.
func findX(seed uint64, wantOnCurve, wantSubgroup bool) *big.Int {
	for i := 0; i < 200; i++ {
		x := hx.Expand(seed, "c06x", i)
		x.Mod(x, ref.P)
		on := ref.YFromX(x) != nil
		if on != wantOnCurve {
			continue
		}
		if !on || ref.SubgroupOK(x) == wantSubgroup {
			return x
		}
	}
	panic(hx.Inconclusive{Msg: "findX: no x found"})
}

var c06Consts = map[string]*big.Int{
	"0": big.NewInt(0), "1": big.NewInt(1), "2": big.NewInt(2), "p-1": new(big.Int).Sub(ref.P, big.NewInt(1)), "p": ref.P,
	"p+1": new(big.Int).Add(ref.P, big.NewInt(1)), "2p": new(big.Int).Lsh(ref.P, 1),
	"2^256-1": new(big.Int).Sub(new(big.Int).Lsh(big.NewInt(1), 256), big.NewInt(1)), "2^255": new(big.Int).Lsh(big.NewInt(1), 255),
	"r": ref.R, "(p-1)/2": new(big.Int).Rsh(ref.P, 1), "(p+1)/2": new(big.Int).Add(new(big.Int).Rsh(ref.P, 1), big.NewInt(1)),
}
var c06ConstNames = []string{"0", "1", "2", "p-1", "p", "p+1", "2p", "2^256-1", "2^255", "r", "(p-1)/2", "(p+1)/2"}

func be32any(v *big.Int) []byte { // low 32 bytes, big-endian
	b := v.Bytes()
	if len(b) > 32 {
		b = b[len(b)-32:]
	}
	return append(make([]byte, 32-len(b)), b...)
}

var c06XClasses = []string{"valid", "valid", "valid_neg", "alias_x+p", "nonsubgroup", "offcurve", "const", "uniform", "valid_bitflip", "y_near_half", "y_dyadic"}

// genX32 draws 32 bytes for the x half by class.
func genX32(t *rapid.T) (b []byte, class string, pt hx.RPt) {
	class = rapid.SampledFrom(c06XClasses).Draw(t, "xclass")
	seed := rapid.Uint64().Draw(t, "xseed")
	pt = refPointFromSeed(seed)
	comp := hx.G.Compress(pt)
	x := new(big.Int).SetBytes(comp[:])
	switch class {
	case "valid":
		b = comp[:]
	case "valid_neg":
		b = be32any(new(big.Int).Mod(new(big.Int).Neg(x), ref.P))
	case "alias_x+p":
		b = be32any(new(big.Int).Add(x, ref.P))
	case "nonsubgroup":
		b = be32any(findX(seed, true, false))
	case "offcurve":
		b = be32any(findX(seed, false, false))
	case "const":
		name := rapid.SampledFrom(c06ConstNames).Draw(t, "const")
		class += ":" + name
		b = be32any(c06Consts[name])
	case "uniform":
		b = hx.ExpandBytes(seed, "c06u", 32)
	case "y_near_half": // an abscissa whose two ordinates are next to p/2 (they agree in their upper limbs); subgroup or not
		xv := c17Case{Mode: "point", Kind: "y_near_half", E: uint32(seed % 100000), Seed: seed >> 20 % 4000}.value()
		if seed>>40%2 == 1 {
			xv.Sub(ref.P, xv).Mod(xv, ref.P)
		}
		b = be32any(xv)
	case "y_dyadic": // a point whose ordinate has a STRUCTURED 2-adic component (y = g^e * u, e by blocks): the square root taken by the decoder meets the rare branches of the table-driven discrete log
		b = comp[:]
		for k := uint64(0); k < 40; k++ {
			e := uint32(seed >> 8)
			switch seed % 4 {
			case 0:
				e &= 0xff000000
			case 1:
				e = e&0x00ff0000 | 0xff000000*uint32(seed>>40&1)
			case 2:
				e <<= 23
			}
			y := c17Case{Kind: "dyadic", E: e, Seed: seed + k}.value()
			if xv := xFromY(y); xv != nil {
				b = be32any(xv)
				break
			}
		}
	case "valid_bitflip":
		b = append([]byte(nil), comp[:]...)
		b[rapid.IntRange(0, 31).Draw(t, "flip_byte")] ^= 1 << rapid.IntRange(0, 7).Draw(t, "flip_bit")
	}
	return
}

// xFromY solves the curve equation for x given y (nil if there is no such point): x^2 = (1 - y^2) / (a - d*y^2).
func xFromY(y *big.Int) *big.Int {
	y2 := new(big.Int).Mul(y, y)
	num := new(big.Int).Sub(big.NewInt(1), y2)
	den := new(big.Int).Sub(ref.CurveA, new(big.Int).Mul(ref.CurveD, y2))
	den.Mod(den, ref.P)
	if den.Sign() == 0 {
		return nil
	}
	x2 := num.Mul(num, new(big.Int).ModInverse(den, ref.P))
	x2.Mod(x2, ref.P)
	return new(big.Int).ModSqrt(x2, ref.P)
}

func genC06(t *rapid.T) c06Case {
	form := rapid.SampledFrom([]string{"compressed", "compressed", "uncompressed", "uncompressed", "readpoint"}).Draw(t, "form")
	xb, class, _ := genX32(t)
	c := c06Case{Form: form, Noise: noiseSeedFrom(rapid.Uint64().Draw(t, "noise"))}
	switch form {
	case "compressed", "readpoint":
		b := xb
		switch rapid.IntRange(0, 9).Draw(t, "lenmode") {
		case 0:
			n := rapid.IntRange(0, 80).Draw(t, "len")
			if n <= 32 {
				b = b[:n]
			} else {
				b = append(append([]byte(nil), b...), hx.ExpandBytes(uint64(n), "pad", n-32)...)
			}
			class += fmt.Sprintf(":len=%d", n)
		case 1:
			b = append(append([]byte(nil), b...), 0)
			class += ":len=33"
		}
		c.Bytes, c.Class = hx.HexBytes(b), class
		if form == "readpoint" {
			c.Chunk = rapid.SampledFrom([]int{0, 1, 7, 31, 32, -1}).Draw(t, "chunk") // 0 whole, -1 data+EOF together
		}
	case "uncompressed":
		x := new(big.Int).SetBytes(xb)
		xr := new(big.Int).Mod(x, ref.P)
		y := ref.YFromX(xr)
		ymode := rapid.SampledFrom([]string{"larger", "larger", "larger", "smaller", "y+p", "y+1", "zero", "uniform", "x_as_y"}).Draw(t, "ymode")
		var yb []byte
		if y == nil {
			y = hx.Expand(rapid.Uint64().Draw(t, "yseed"), "c06y", 0)
			y.Mod(y, ref.P)
		}
		switch ymode {
		case "larger":
			yb = be32any(y)
		case "smaller":
			yb = be32any(new(big.Int).Mod(new(big.Int).Neg(y), ref.P))
		case "y+p":
			yb = be32any(new(big.Int).Add(y, ref.P))
		case "y+1":
			yb = be32any(new(big.Int).Add(y, big.NewInt(1)))
		case "zero":
			yb = make([]byte, 32)
		case "uniform":
			yb = hx.ExpandBytes(rapid.Uint64().Draw(t, "yseed2"), "c06yu", 32)
		case "x_as_y":
			yb = xb
		}
		b := append(append([]byte(nil), xb...), yb...)
		class += ":y=" + ymode
		switch rapid.IntRange(0, 11).Draw(t, "lenmode") {
		case 0:
			n := rapid.IntRange(0, 80).Draw(t, "len")
			if n <= 64 {
				b = b[:n]
			} else {
				b = append(b, make([]byte, n-64)...)
			}
			class += fmt.Sprintf(":len=%d", n)
		}
		c.Bytes, c.Class = hx.HexBytes(b), class
	}
	return c
}

type chunkReader struct {
	data  []byte
	chunk int
}

func (r *chunkReader) Read(p []byte) (int, error) {
	if len(r.data) == 0 {
		return 0, io.EOF
	}
	n := r.chunk
	if n > len(p) {
		n = len(p)
	}
	if n > len(r.data) {
		n = len(r.data)
	}
	copy(p, r.data[:n])
	r.data = r.data[n:]
	return n, nil
}

func evalC06(c c06Case, rec *hx.Rec) error {
	in := hx.BytesHex(c.Bytes)
	orig := append([]byte(nil), in...)
	rec.Eval(1)
	rec.Sample(c)
	failed := c06Clauses(c.Form, in)
	var want hx.RPt
	var werr error
	switch c.Form {
	case "compressed":
		want, werr = hx.G.DecodeCompressed(in)
	case "uncompressed":
		want, werr = hx.G.DecodeUncompressed(in)
	case "readpoint":
		if len(in) < 32 {
			werr = ref.ErrLength
		} else {
			want, werr = hx.G.DecodeCompressed(in[:32])
		}
	}
	if (werr == nil) != (len(failed) == 0) {
		panic(hx.Inconclusive{Msg: fmt.Sprintf("reference predicate inconsistent for %s %x: %v vs %v", c.Form, in, werr, failed)})
	}
	runNoise(c.Noise, 2, false)
	if c.Noise%4 == 1 { // the trusted decoders see the very same bytes first; the untrusted verdict must not depend on that
		_ = hx.Try(func() {
			var t1, t2 banderwagon.Element
			_ = t1.SetBytesUnsafe(in)
			_ = t2.SetBytesUncompressed(in, true)
		})
		rec.Label("trusted_decode_of_same_bytes_first")
	}
	var e banderwagon.Element
	var ierr error
	perr := hx.Try(func() {
		switch c.Form {
		case "compressed":
			ierr = e.SetBytes(in)
		case "uncompressed":
			ierr = e.SetBytesUncompressed(in, false)
		case "readpoint":
			var rd io.Reader = bytes.NewReader(in)
			switch {
			case c.Chunk > 0:
				rd = &chunkReader{data: append([]byte(nil), in...), chunk: c.Chunk}
			case c.Chunk < 0:
				rd = iotest.DataErrReader(bytes.NewReader(in))
			}
			var p *banderwagon.Element
			p, ierr = common.ReadPoint(rd)
			if ierr == nil {
				if p == nil {
					ierr = fmt.Errorf("nil element without error")
				} else {
					e = *p
					// what a decoder returns belongs to the caller: it is overwritten, and the same bytes are decoded again
					p.Add(p, &banderwagon.Generator)
					p.Double(p)
					if p2, err2 := common.ReadPoint(bytes.NewReader(in)); err2 != nil || p2 == nil {
						ierr = fmt.Errorf("decoding the same bytes a second time failed: %v", err2)
					} else {
						e = *p2
					}
				}
			}
		}
	})
	if perr != nil {
		return fmt.Errorf("%s(%x): %w", c.Form, in, perr)
	}
	in = orig // the oracle below works on the original bytes (input purity is C13's subject, not C06's)
	if (ierr == nil) != (werr == nil) {
		return fmt.Errorf("%s(%x): go-ipa accepted=%v (err=%v), reference accepted=%v (%v; failing clauses %v)", c.Form, in, ierr == nil, ierr, werr == nil, werr, failed)
	}
	rec.Label("form=" + c.Form)
	if werr != nil {
		rec.Label(fmt.Sprintf("reject:%v", failed))
		if len(failed) == 1 {
			rec.NT(c.Form, c.Bytes)
			rec.Label("reject_exactly_one_clause:" + failed[0])
		}
		return nil
	}
	rec.Label("accept")
	rec.NT(c.Form, c.Bytes)
	rec.SampleNT(c)
	got := hx.FromImpl(&e)
	if !hx.G.IsValid(got) {
		return fmt.Errorf("%s(%x): accepted but the element is not a valid curve point", c.Form, in)
	}
	gx, gy := hx.G.Affine(got)
	wx, wy := hx.G.Affine(want)
	if gx.Cmp(wx) != 0 || gy.Cmp(wy) != 0 {
		return fmt.Errorf("%s(%x): decoded point (%s,%s) differs from the reference decode (%s,%s)", c.Form, in, gx.Text(16), gy.Text(16), wx.Text(16), wy.Text(16))
	}
	if !hx.G.InSubgroup(got) {
		return fmt.Errorf("%s(%x): r*P is not in the identity class", c.Form, in)
	}
	if c.Form == "uncompressed" {
		re := e.BytesUncompressedTrusted()
		if !bytes.Equal(re[:], in) {
			return fmt.Errorf("uncompressed: accepted %x but re-encodes to %x", in, re)
		}
	} else {
		re := e.Bytes()
		if !bytes.Equal(re[:], in[:32]) {
			return fmt.Errorf("%s: accepted %x but re-encodes to %x", c.Form, in[:32], re)
		}
	}
	return nil
}

var c06Part = hx.NewPart("C06", "decode", genC06, evalC06)

// ---- the group elements inside serialized proofs: sixteen (seventeen) untrusted encodings decoded by ONE Read call

type c06ProofCase struct {
	Kind   string   `json:"kind"` // ipa | multi
	Points []string `json:"points"`
	Class  string   `json:"class"`
	Seed   uint64   `json:"seed"`
}

func genC06Proof(t *rapid.T) c06ProofCase {
	c := c06ProofCase{Kind: rapid.SampledFrom([]string{"ipa", "multi"}).Draw(t, "kind"), Seed: rapid.Uint64().Draw(t, "seed")}
	n := 16
	if c.Kind == "multi" {
		n = 17
	}
	// mostly valid points; zero, one, two or several of them replaced by one defect class (the same or different values)
	nbad := rapid.SampledFrom([]int{0, 1, 2, 2, 2, 3, 4, 16}).Draw(t, "nbad")
	cls := rapid.SampledFrom([]string{"nonsubgroup", "offcurve", "alias_x+p", "valid_neg", "y_near_half", "const"}).Draw(t, "badclass")
	sameValue := rapid.Bool().Draw(t, "same_value")
	for i := 0; i < n; i++ {
		comp := hx.G.Compress(refPointFromSeed(c.Seed + uint64(i)))
		c.Points = append(c.Points, hx.HexBytes(comp[:]))
	}
	for k := 0; k < nbad && k < n; k++ {
		pos := rapid.IntRange(0, n-1).Draw(t, "pos")
		seed := c.Seed + 1000
		if !sameValue {
			seed += uint64(k)
		}
		var b []byte
		switch cls {
		case "nonsubgroup":
			b = be32any(findX(seed, true, false))
		case "offcurve":
			b = be32any(findX(seed, false, false))
		case "alias_x+p":
			x := new(big.Int).SetBytes(hx.BytesHex(c.Points[pos]))
			b = be32any(x.Add(x, ref.P))
		case "valid_neg":
			x := new(big.Int).SetBytes(hx.BytesHex(c.Points[pos]))
			b = be32any(x.Sub(ref.P, x).Mod(x, ref.P))
		case "y_near_half":
			b = be32any(c17Case{Mode: "point", Kind: "y_near_half", E: uint32(seed % 100000), Seed: seed % 4}.value())
		default:
			b = be32any(c06Consts[c06ConstNames[int(seed%uint64(len(c06ConstNames)))]])
		}
		c.Points[pos] = hx.HexBytes(b)
	}
	c.Class = fmt.Sprintf("%s x%d same=%v", cls, nbad, sameValue)
	return c
}

func evalC06Proof(c c06ProofCase, rec *hx.Rec) error {
	rec.Eval(1)
	rec.Sample(c)
	var in []byte
	wantOK := true
	nbad := 0
	for _, p := range c.Points {
		b := hx.BytesHex(p)
		in = append(in, b...)
		if _, err := hx.G.DecodeCompressed(b); err != nil {
			wantOK = false
			nbad++
		}
	}
	in = append(in, ref.LE32(hx.ExpandFr(c.Seed, "c06sc", 0))...)
	var pts []banderwagon.Element
	var ierr error
	if perr := hx.Try(func() {
		if c.Kind == "ipa" {
			var pr ipa.IPAProof
			ierr = pr.Read(bytes.NewReader(in))
			pts = append(append(pts, pr.L...), pr.R...)
		} else {
			var pr multiproof.MultiProof
			ierr = pr.Read(bytes.NewReader(in))
			pts = append(append(append(pts, pr.D), pr.IPA.L...), pr.IPA.R...)
		}
	}); perr != nil {
		return fmt.Errorf("%s proof Read: %w", c.Kind, perr)
	}
	rec.Label("proofpoints:"+c.Kind, fmt.Sprintf("proofpoints:invalid=%d", nbad))
	if (ierr == nil) != wantOK {
		return fmt.Errorf("%s proof Read accepted=%v (err=%v) although %d of its %d point encodings are not canonical subgroup encodings (%s)", c.Kind, ierr == nil, ierr, nbad, len(c.Points), c.Class)
	}
	rec.NT("proof", fmt.Sprint(c))
	if !wantOK {
		return nil
	}
	if len(pts) != len(c.Points) {
		return fmt.Errorf("%s proof Read returned %d points for %d encodings", c.Kind, len(pts), len(c.Points))
	}
	for i := range pts {
		got := hx.FromImpl(&pts[i])
		if !hx.G.IsValid(got) || !hx.G.InSubgroup(got) {
			return fmt.Errorf("%s proof Read: decoded point %d is not an element of the prime-order group", c.Kind, i)
		}
		re := pts[i].Bytes()
		if want := hx.BytesHex(c.Points[i]); !bytes.Equal(re[:], want) {
			return fmt.Errorf("%s proof Read: point %d decoded from %x re-encodes to %x", c.Kind, i, want, re)
		}
	}
	return nil
}

var c06Proof = hx.NewPart("C06", "proofpoints", genC06Proof, evalC06Proof)

func TestC06(t *testing.T) {
	s := hx.Start(t, "C06")
	defer s.Finish()
	if hx.Shard() == 0 { // deterministic sweep of the constants in every form
		for _, name := range c06ConstNames {
			xb := be32any(c06Consts[name])
			c06Part.EvalCase(s, c06Case{Form: "compressed", Bytes: hx.HexBytes(xb), Class: "sweep:" + name})
			c06Part.EvalCase(s, c06Case{Form: "readpoint", Bytes: hx.HexBytes(xb), Class: "sweep:" + name, Chunk: -1})
			for _, name2 := range c06ConstNames {
				c06Part.EvalCase(s, c06Case{Form: "uncompressed", Bytes: hx.HexBytes(append(append([]byte(nil), xb...), be32any(c06Consts[name2])...)), Class: "sweep:" + name + "," + name2})
			}
		}
	}
	for k := 0; k < 24; k++ { // abscissas whose ordinates are the nearest ones to p/2, with and without limb-aligned offsets
		xv := c17Case{Mode: "point", Kind: "y_near_half", E: uint32(97*k + 13*hx.Shard()), Seed: uint64(k % 4)}.value()
		xb := be32any(xv)
		c06Part.EvalCase(s, c06Case{Form: "compressed", Bytes: hx.HexBytes(xb), Class: "forced:y_near_half"})
		if y := ref.YFromX(xv); y != nil {
			for _, yy := range []*big.Int{y, new(big.Int).Sub(ref.P, y)} {
				c06Part.EvalCase(s, c06Case{Form: "uncompressed", Bytes: hx.HexBytes(append(append([]byte(nil), xb...), be32any(yy)...)), Class: "forced:y_near_half"})
			}
		}
	}
	c06Part.Run(s, hx.PerShard(hx.Pick(240000, 4000000)))
	c06Proof.Run(s, hx.PerShard(hx.Pick(8000, 160000)))
	c06Part.RunConcurrent(s, 8, hx.Pick(1500, 20000))
}
