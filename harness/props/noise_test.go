//go:build verif && verif_elem

package props

import (
	"bytes"
	"math/big"
	"sync"

	gfr "github.com/consensys/gnark-crypto/ecc/bls12-381/fr"
	multiproof "github.com/crate-crypto/go-ipa"
	"github.com/crate-crypto/go-ipa/bandersnatch"
	"github.com/crate-crypto/go-ipa/bandersnatch/fp"
	"github.com/crate-crypto/go-ipa/bandersnatch/fr"
	"github.com/crate-crypto/go-ipa/banderwagon"
	"github.com/crate-crypto/go-ipa/common"
	"github.com/crate-crypto/go-ipa/common/parallel"
	"github.com/crate-crypto/go-ipa/ipa"

	"verif/harness/hx"
	"verif/harness/ref"
)

// History noise. Many realistic defects are invisible to a check that evaluates every case on a quiet process:
// a pooled buffer left dirty by an error path, a one-entry memo keyed too coarsely, lazily initialised package
// state, an object reused across calls. runNoise executes a short, deterministic (seed-derived) sequence of
// UNRELATED, legal API calls — including calls that are expected to fail — before the case proper is evaluated.
// Their results are ignored; the property under test must hold regardless of what ran before.

var (
	noisePtsOnce sync.Once
	noisePts     []banderwagon.Element
	noiseProof   []byte
)

func noiseInit() {
	noisePtsOnce.Do(func() {
		p := hx.G.Generator()
		step := hx.G.Mul(hx.G.Generator(), big.NewInt(977))
		for i := 0; i < 64; i++ {
			noisePts = append(noisePts, hx.ToImpl(hx.Rep(p, i%4, uint64(i+5))))
			p = hx.G.Add(p, step)
		}
		noiseProof = c10Case{Kind: "multi", Base: "valid", Seed: 3, Field: -1}.bytesOf()
	})
}

const nLightNoise = 14

// runNoise runs k calls chosen by the seed; heavy also allows calls that need the IPA configuration. seed 0 = none.
func runNoise(seed uint64, k int, heavy bool) {
	if seed == 0 {
		return
	}
	noiseInit()
	for i := 0; i < k; i++ {
		h := hx.Expand(seed, "noise", i)
		sel := int(h.Uint64() % 1000)
		arg := new(big.Int).Rsh(h, 64).Uint64()
		n := nLightNoise + 1
		if heavy {
			n += 7
		}
		op := sel % n
		if !heavy && op == nLightNoise {
			op = 21 // the last light operation sits behind the heavy ones
		}
		if op == 3 && arg%6 != 0 { // the large MSM is the only expensive call: keep it rare
			op = 4
		}
		_ = hx.Try(func() { noiseOp(op, arg) })
	}
}

func noiseOp(op int, arg uint64) {
	switch op {
	case 0: // trusted decode of an on-curve x outside the subgroup, then the same bytes untrusted
		b := be32any(findX(arg%64, true, false))
		var e banderwagon.Element
		_ = e.SetBytesUnsafe(b)
		_ = e.SetBytes(b)
	case 1: // rejecting paths of the scalar decoders
		var s fr.Element
		_, _ = s.SetBytesLECanonical(ref.LE32(new(big.Int).Add(ref.R, big.NewInt(int64(arg%9)))))
		_, _ = common.ReadScalar(bytes.NewReader(make([]byte, 31)))
		s.SetBytesLE(ref.LE32(big.NewInt(int64(arg))))
		// decoders fed far more than 256 bits (legal for the reducing decoders), before and after a rejection
		long := bytes.Repeat([]byte{0xff, 0x5a}, 32)
		if arg%2 == 0 {
			s.SetBytes(long)
			_, _ = s.SetBytesLECanonical(ref.LE32(ref.R))
		} else {
			_, _ = s.SetBytesLECanonical(ref.LE32(ref.R))
			s.SetBytesLE(long)
		}
		s.SetString("115792089237316195423570985008687907853269984665640564039457584007913129639936123456789")
	case 2: // batch inversion with zeros at seed-dependent positions
		v := make([]fr.Element, 1+arg%300)
		for i := range v {
			if (uint64(i)+arg)%3 != 0 {
				v[i] = hx.FrFromBig(big.NewInt(int64(i + 2)))
			}
		}
		_ = fr.BatchInvert(v)
	case 3: // a large MSM with dense scalars, then a small one with mostly zero scalars
		big1 := make([]banderwagon.Element, 1100+arg%500)
		sc := make([]fr.Element, len(big1))
		for i := range big1 {
			big1[i] = noisePts[i%len(noisePts)]
			sc[i] = hx.FrFromBig(hx.ExpandFr(arg, "nmsm", i%97))
		}
		var r banderwagon.Element
		r.SetIdentity()
		_, _ = r.MultiExp(big1, sc, banderwagon.MultiExpConfig{NbTasks: int(arg % 5), ScalarsMont: true})
	case 4: // MSM with mismatched lengths, with no points, with one point in regular form
		var r banderwagon.Element
		r.SetIdentity()
		_, _ = r.MultiExp(noisePts[:3], make([]fr.Element, 2), banderwagon.MultiExpConfig{})
		_, _ = r.MultiExp(nil, nil, banderwagon.MultiExpConfig{NbTasks: int(arg % 130)})
		one := []fr.Element{hx.FrSetRaw(big.NewInt(int64(arg%1000 + 1)))}
		_, _ = r.MultiExp(noisePts[:1], one, banderwagon.MultiExpConfig{ScalarsMont: false})
	case 5: // batch normalisation: failing list, then a mixed list with repeated pointers
		var bad banderwagon.Element
		a, b, c := noisePts[arg%60], noisePts[(arg+1)%60], noisePts[(arg+2)%60]
		_ = banderwagon.BatchNormalize([]*banderwagon.Element{&a, &bad, &b})
		_ = banderwagon.BatchNormalize([]*banderwagon.Element{&a, &b, &a, &c, &b})
	case 6: // batch serialisers on a mixed list with the identity and repeated pointers
		id := banderwagon.Identity
		a, b := noisePts[arg%60], noisePts[(arg+7)%60]
		list := []*banderwagon.Element{&a, &id, &b, &a}
		_ = banderwagon.ElementsToBytes(list...)
		_ = banderwagon.BatchToBytesUncompressed(list...)
		res := []*fr.Element{new(fr.Element), new(fr.Element), new(fr.Element), new(fr.Element)}
		_ = banderwagon.BatchMapToScalarField(res, list)
	case 7: // transcript with a long label and many pending bytes
		tr := common.NewTranscript("noise")
		long := bytes.Repeat([]byte{byte(arg)}, 40+int(arg%2000))
		s := hx.FrFromBig(big.NewInt(int64(arg)))
		tr.AppendScalar(&s, long)
		tr.AppendPoint(&noisePts[arg%60], long)
		_ = tr.ChallengeScalar(long)
		_ = tr.ChallengeScalar([]byte("x"))
	case 8: // proof parsing: truncated, trailing, valid; writing to a failing writer, then to a good one
		var mp multiproof.MultiProof
		_ = mp.Read(bytes.NewReader(noiseProof[:100+arg%400]))
		_ = mp.Read(bytes.NewReader(append(append([]byte(nil), noiseProof...), 1)))
		if mp.Read(bytes.NewReader(noiseProof)) == nil {
			_ = mp.Write(&failWriter{failAt: int(arg % 18), full: arg%2 == 0})
			var out bytes.Buffer
			_ = mp.Write(&out)
		}
	case 9: // the range splitter with an empty range and with one worker
		parallel.Execute(0, func(a, b int) {})
		parallel.Execute(int(arg%9), func(a, b int) {}, 1)
	case 10:
		_ = common.PowersOf(hx.FrFromBig(big.NewInt(int64(arg))), 1)
		_ = common.PowersOf(hx.FrFromBig(big.NewInt(int64(arg))), 3)
	case 11: // scalar multiplication of both identity representatives and a sign-flipped point
		var t2, r banderwagon.Element
		_ = t2.SetBytes(make([]byte, 32))
		s := hx.FrFromBig(hx.ExpandFr(arg, "nsm", 0))
		r.ScalarMul(&t2, &s)
		r.ScalarMul(&banderwagon.Identity, &s)
		r.Sub(&noisePts[arg%60], &noisePts[arg%60])
	case 12: // uncompressed decoding, trusted then untrusted, of the identity and of a valid point
		var e banderwagon.Element
		u := noisePts[arg%60].BytesUncompressedTrusted()
		_ = e.SetBytesUncompressed(u[:], true)
		_ = e.SetBytesUncompressed(u[:], false)
		_ = e.SetBytesUncompressed(make([]byte, 64), false)
	case 13: // IPA proof parsing into a receiver that already holds a proof
		var ip ipa.IPAProof
		_ = ip.Read(bytes.NewReader(noiseProof[32:]))
		_ = ip.Read(bytes.NewReader(noiseProof[32:500]))
	// ---- heavy: need the configuration
	case 14: // verification that fails with an error (wrong number of L/R points), non-zero claimed values
		cfg := Cfg()
		c, y := noisePts[arg%60], hx.FrFromBig(big.NewInt(int64(arg%1000+1)))
		proof := &multiproof.MultiProof{D: noisePts[1], IPA: ipa.IPAProof{L: noisePts[:7], R: noisePts[8:15], A_scalar: y}}
		_, _ = multiproof.CheckMultiProof(common.NewTranscript("n"), cfg, proof, []*banderwagon.Element{&c, &c}, []*fr.Element{&y, &y}, []uint8{uint8(arg), uint8(arg >> 8)})
		_, _ = ipa.CheckIPAProof(common.NewTranscript("n"), cfg, c, proof.IPA, y, y)
	case 15: // a single-opening prove + verify
		cfg := Cfg()
		f := hx.FrSliceFromBig(polySpec{Kind: "sparse", Seed: arg, Idx: []int{int(arg % 256), 9}}.evals())
		c := cfg.Commit(f)
		z := uint8(arg >> 3)
		if p, err := multiproof.CreateMultiProof(common.NewTranscript("n1"), cfg, []*banderwagon.Element{&c}, [][]fr.Element{f}, []uint8{z}); err == nil {
			y := f[z]
			_, _ = multiproof.CheckMultiProof(common.NewTranscript("n1"), cfg, p, []*banderwagon.Element{&c}, []*fr.Element{&y}, []uint8{z})
		}
	case 16: // a full-length commitment followed by short ones and the empty one
		cfg := Cfg()
		f := hx.FrSliceFromBig(polySpec{Kind: "dense", Seed: arg}.evals())
		_ = cfg.Commit(f)
		_ = cfg.Commit(f[:5])
		_ = cfg.Commit(nil)
		_ = cfg.Commit(make([]fr.Element, 7))
	case 17: // IPA at an in-domain point and at an out-of-domain point
		cfg := Cfg()
		f := hx.FrSliceFromBig(polySpec{Kind: "sparse", Seed: arg, Idx: []int{3, 200}}.evals())
		c := cfg.Commit(f)
		_, _ = ipa.CreateIPAProof(common.NewTranscript("n2"), cfg, c, f, hx.FrFromBig(big.NewInt(int64(arg%256))))
		_, _ = ipa.CreateIPAProof(common.NewTranscript("n2"), cfg, c, f, hx.FrFromBig(big.NewInt(int64(256+arg%1000))))
	case 18: // barycentric coefficients, overwritten by the caller, asked again
		cfg := Cfg()
		z := hx.FrFromBig(big.NewInt(int64(256 + arg%50)))
		b := cfg.PrecomputedWeights.ComputeBarycentricCoefficients(z)
		for i := range b {
			b[i].SetZero()
		}
		_ = cfg.PrecomputedWeights.ComputeBarycentricCoefficients(z)
	case 19:
		cfg := Cfg()
		f := hx.FrSliceFromBig(polySpec{Kind: "dense", Seed: arg}.evals())
		_ = cfg.PrecomputedWeights.DivideOnDomain(uint8(arg), f)
	case 21: // whatever a call RETURNS belongs to the caller: returned objects are overwritten / used as receivers
		var acc banderwagon.Element
		acc.SetIdentity()
		if ret, err := acc.MultiExp(nil, nil, banderwagon.MultiExpConfig{NbTasks: int(arg % 3)}); err == nil && ret != nil {
			ret.Add(ret, &banderwagon.Generator)
			ret.Double(ret)
		}
		if p, err := common.ReadPoint(bytes.NewReader(make([]byte, 32))); err == nil && p != nil {
			p.Add(p, &banderwagon.Generator)
		}
		if sc, err := common.ReadScalar(bytes.NewReader(ref.LE32(big.NewInt(int64(arg % 5))))); err == nil && sc != nil {
			sc.SetUint64(77)
		}
		var zero gfr.Element
		if root := fp.SqrtPrecomp(&zero); root != nil {
			root.SetUint64(5)
		}
		if pt := bandersnatch.GetPointFromX(&zero, arg%2 == 0); pt != nil {
			pt.X.SetUint64(9)
			pt.Y.SetUint64(9)
		}
		var t1, t2 banderwagon.Element
		t1.SetIdentity()
		s := hx.FrFromBig(big.NewInt(int64(arg%7) + 2))
		if ret := t2.ScalarMul(&t1, &s); ret != nil {
			ret.Add(ret, &banderwagon.Generator)
		}
		ms, _ := ipa.MultiScalar(nil, nil)
		ms.Add(&ms, &banderwagon.Generator)
	case 20: // generic MSM over a sub-slice of the shared SRS
		cfg := Cfg()
		k := 1 + int(arg%200)
		_, _ = ipa.MultiScalar(cfg.SRS[:k], hx.FrSliceFromBig(polySpec{Kind: "sparse", Seed: arg, Idx: []int{0, k - 1}}.evals())[:k])
	}
}

// drawNoise is used by generators: half of the cases run on a quiet process, half after some noise.
func noiseSeedFrom(v uint64) uint64 {
	if v%2 == 0 {
		return 0
	}
	return v | 1
}
