//go:build verif && verif_elem

package props

import (
	"bytes"
	"fmt"
	"math/big"
	"testing"

	multiproof "github.com/crate-crypto/go-ipa"
	"github.com/crate-crypto/go-ipa/bandersnatch/fr"
	"github.com/crate-crypto/go-ipa/banderwagon"
	"github.com/crate-crypto/go-ipa/common"
	"github.com/crate-crypto/go-ipa/ipa"
	"pgregory.net/rapid"

	"verif/harness/hx"
	"verif/harness/ref"
)

// C02 — the verifier accepts only what the reference verifier accepts.

type transform struct {
	Kind string `json:"kind"`
	I    int    `json:"i,omitempty"`
	J    int    `json:"j,omitempty"`
	Seed uint64 `json:"seed,omitempty"`
}

type c02Case struct {
	Set openSet     `json:"set"`
	Tx  []transform `json:"tx"`
	// IPA-level statement: polynomial 0 of the set opened at Point, with its own transformations
	Point string      `json:"point"`
	IPATx []transform `json:"ipa_tx"`
}

// tuple is a multiproof statement + proof on the reference side (representations included).
type tuple struct {
	label   string
	Cs      []hx.RPt
	zs      []int
	ys      []*big.Int
	D       hx.RPt
	L, R    []hx.RPt
	A       *big.Int
	class   string // value | rep | shape | arbitrary | zero_elem | identical
	zeroAt  string // which component holds the all-zero pseudo-element
	lenYs   int    // -1 = len(Cs)
	lenZs   int
	viaRead bool // the proof object is what MultiProof.Read produces from the serialized proof (composition decoder -> verifier)
	share   bool // hand bit-identical commitments (and equal claimed values) to go-ipa through ONE shared pointer
}

func (t tuple) clone() tuple {
	c := t
	c.Cs = append([]hx.RPt(nil), t.Cs...)
	c.zs = append([]int(nil), t.zs...)
	c.ys = append([]*big.Int(nil), t.ys...)
	c.L = append([]hx.RPt(nil), t.L...)
	c.R = append([]hx.RPt(nil), t.R...)
	c.A = new(big.Int).Set(t.A)
	return c
}

var multiTxKinds = []string{
	"C_offset", "C_replace", "z_change", "y_offset", "y_zero", "D_offset", "L_offset", "R_offset", "A_offset", "A_neg",
	"swap_LR", "swap_LL", "swap_RR", "swap_open", "drop_open", "dup_open", "append_open", "label_change", "label_empty",
	"rerep_C", "rerep_D", "rerep_L", "rerep_R", "rerep_all",
	"len_ys_short", "len_ys_long", "len_zs_short", "len_zs_long", "zero_open", "len_L", "len_R", "len_LR",
	"arbitrary", "zero_elem", "neg_C", "D_identity", "L_identity", "C_identity", "y_pair", "C_pair",
}

var ipaTxKinds = []string{
	"C_offset", "z_offset", "z_cross", "y_offset", "L_offset", "R_offset", "A_offset", "swap_LR", "swap_LL",
	"rerep_C", "rerep_L", "rerep_all", "len_L", "len_R", "len_LR", "arbitrary", "zero_elem", "label_change",
}

func genTx(t *rapid.T, kinds []string, label string) transform {
	return transform{
		Kind: rapid.SampledFrom(kinds).Draw(t, label+"_kind"),
		I:    rapid.IntRange(0, 7).Draw(t, label+"_i"),
		J:    rapid.IntRange(0, 7).Draw(t, label+"_j"),
		Seed: rapid.Uint64().Draw(t, label+"_seed"),
	}
}

func genC02(t *rapid.T) c02Case {
	c := c02Case{Set: genOpenSet(t, 24, 6), Point: genPointHex(t)}
	if len(c.Set.Label) > 64 {
		c.Set.Label = c.Set.Label[:64]
	}
	n := rapid.IntRange(3, 7).Draw(t, "ntx")
	for i := 0; i < n; i++ {
		c.Tx = append(c.Tx, genTx(t, multiTxKinds, fmt.Sprintf("tx%d", i)))
	}
	m := rapid.IntRange(2, 5).Draw(t, "nipatx")
	for i := 0; i < m; i++ {
		c.IPATx = append(c.IPATx, genTx(t, ipaTxKinds, fmt.Sprintf("itx%d", i)))
	}
	return c
}

func smallPoint(seed uint64) hx.RPt { // k*G for a small non-zero k
	return hx.G.Mul(hx.G.Generator(), big.NewInt(int64(1+seed%97)))
}

func nonzeroDelta(seed uint64) *big.Int {
	if seed%3 == 0 {
		return hx.ExpandFr(seed|1, "delta", 0)
	}
	return big.NewInt(int64(1 + seed%5))
}

var zeroElem = hx.RPt{} // (0,0,0): the uninitialised banderwagon.Element

// applyMulti returns the transformed tuple; ok=false when the transformation does not apply to this tuple.
func applyMulti(h tuple, second tuple, tx transform) (tuple, bool) {
	t := h.clone()
	n := len(t.Cs)
	i := tx.I % n
	j := tx.J % 8
	t.class = "value"
	switch tx.Kind {
	case "C_offset":
		t.Cs[i] = hx.G.Add(t.Cs[i], smallPoint(tx.Seed))
	case "C_replace":
		t.Cs[i] = hx.G.Mul(hx.G.CRS()[tx.Seed%256], nonzeroDelta(tx.Seed))
	case "neg_C":
		if hx.G.IsIdentity(t.Cs[i]) {
			return t, false
		}
		t.Cs[i] = hx.G.Neg(t.Cs[i])
	case "C_identity":
		if hx.G.IsIdentity(t.Cs[i]) {
			return t, false
		}
		t.Cs[i] = hx.G.Identity()
	case "z_change":
		t.zs[i] = (t.zs[i] + 1 + int(tx.Seed%255)) & 255
	case "y_offset":
		t.ys[i] = ref.FrAdd(t.ys[i], nonzeroDelta(tx.Seed))
	case "y_pair", "C_pair": // compensating changes at two openings of the same index (cancel only if their weights coincide)
		k := -1
		for d := 1; d < n; d++ {
			if t.zs[(i+d)%n] == t.zs[i] {
				k = (i + d) % n
				break
			}
		}
		if k < 0 {
			return t, false
		}
		if tx.Kind == "y_pair" {
			d := nonzeroDelta(tx.Seed)
			t.ys[i] = ref.FrAdd(t.ys[i], d)
			t.ys[k] = ref.FrSub(t.ys[k], d)
		} else {
			d := smallPoint(tx.Seed)
			t.Cs[i] = hx.G.Add(t.Cs[i], d)
			t.Cs[k] = hx.G.Add(t.Cs[k], hx.G.Neg(d))
		}
	case "y_zero":
		if t.ys[i].Sign() == 0 {
			return t, false
		}
		t.ys[i] = new(big.Int)
	case "D_offset":
		t.D = hx.G.Add(t.D, smallPoint(tx.Seed))
	case "D_identity":
		if hx.G.IsIdentity(t.D) {
			return t, false
		}
		t.D = hx.G.Identity()
	case "L_offset":
		t.L[j] = hx.G.Add(t.L[j], smallPoint(tx.Seed))
	case "L_identity":
		if hx.G.IsIdentity(t.L[j]) {
			return t, false
		}
		t.L[j] = hx.G.Identity()
	case "R_offset":
		t.R[j] = hx.G.Add(t.R[j], smallPoint(tx.Seed))
	case "A_offset":
		t.A = ref.FrAdd(t.A, nonzeroDelta(tx.Seed))
	case "A_neg":
		if t.A.Sign() == 0 {
			return t, false
		}
		t.A = ref.FrNeg(t.A)
	case "swap_LR":
		if hx.G.Equal(t.L[j], t.R[j]) {
			return t, false
		}
		t.L[j], t.R[j] = t.R[j], t.L[j]
	case "swap_LL":
		k := (j + 1 + tx.I%7) % 8
		if hx.G.Equal(t.L[j], t.L[k]) {
			return t, false
		}
		t.L[j], t.L[k] = t.L[k], t.L[j]
	case "swap_RR":
		k := (j + 1 + tx.I%7) % 8
		if hx.G.Equal(t.R[j], t.R[k]) {
			return t, false
		}
		t.R[j], t.R[k] = t.R[k], t.R[j]
	case "swap_open":
		if n < 2 {
			return t, false
		}
		k := (i + 1 + tx.J%(n-1)) % n
		same := hx.G.Equal(t.Cs[i], t.Cs[k]) && t.zs[i] == t.zs[k] && t.ys[i].Cmp(t.ys[k]) == 0
		t.Cs[i], t.Cs[k] = t.Cs[k], t.Cs[i]
		t.zs[i], t.zs[k] = t.zs[k], t.zs[i]
		t.ys[i], t.ys[k] = t.ys[k], t.ys[i]
		if same {
			t.class = "identical"
		}
	case "drop_open":
		if n < 2 {
			return t, false
		}
		t.Cs = append(t.Cs[:i], t.Cs[i+1:]...)
		t.zs = append(t.zs[:i], t.zs[i+1:]...)
		t.ys = append(t.ys[:i], t.ys[i+1:]...)
	case "dup_open", "append_open":
		t.Cs = append(t.Cs, t.Cs[i])
		t.zs = append(t.zs, t.zs[i])
		t.ys = append(t.ys, t.ys[i])
	case "label_change":
		t.label = t.label + "x"
	case "label_empty":
		if t.label == "" {
			return t, false
		}
		t.label = ""
	case "rerep_C":
		t.Cs[i] = hx.Rep(t.Cs[i], 1+int(tx.Seed%3), tx.Seed)
		t.class = "rep"
	case "rerep_D":
		t.D = hx.Rep(t.D, 1+int(tx.Seed%3), tx.Seed)
		t.class = "rep"
	case "rerep_L":
		t.L[j] = hx.Rep(t.L[j], 1+int(tx.Seed%3), tx.Seed)
		t.class = "rep"
	case "rerep_R":
		t.R[j] = hx.Rep(t.R[j], 1+int(tx.Seed%3), tx.Seed)
		t.class = "rep"
	case "rerep_all":
		for k := range t.Cs {
			t.Cs[k] = hx.Rep(t.Cs[k], 1+int((tx.Seed+uint64(k))%3), tx.Seed+uint64(k))
		}
		t.D = hx.Rep(t.D, 3, tx.Seed+100)
		for k := 0; k < 8; k++ {
			t.L[k] = hx.Rep(t.L[k], 1+int((tx.Seed+uint64(k))%3), tx.Seed+200+uint64(k))
			t.R[k] = hx.Rep(t.R[k], 1+int((tx.Seed>>3+uint64(k))%3), tx.Seed+300+uint64(k))
		}
		t.class = "rep"
	case "len_ys_short":
		t.lenYs, t.class = n-1, "shape"
	case "len_ys_long":
		t.lenYs, t.class = n+1, "shape"
	case "len_zs_short":
		t.lenZs, t.class = n-1, "shape"
	case "len_zs_long":
		t.lenZs, t.class = n+1, "shape"
	case "zero_open":
		t.Cs, t.zs, t.ys, t.class = nil, nil, nil, "shape"
	case "len_L":
		k := []int{0, 7, 9}[tx.Seed%3]
		t.L, t.class = resizePts(t.L, k), "shape"
	case "len_R":
		k := []int{0, 7, 9}[tx.Seed%3]
		t.R, t.class = resizePts(t.R, k), "shape"
	case "len_LR":
		k := []int{0, 1, 7, 9, 16}[tx.Seed%5]
		t.L, t.R, t.class = resizePts(t.L, k), resizePts(t.R, k), "shape"
	case "arbitrary":
		for k := range t.Cs {
			t.Cs[k] = hx.G.Mul(hx.G.CRS()[(tx.Seed+uint64(k))%256], hx.ExpandFr(tx.Seed, "arbC", k))
			t.zs[k] = int(hx.Expand(tx.Seed, "arbz", k).Uint64() % 256)
			t.ys[k] = hx.ExpandFr(tx.Seed, "arby", k)
		}
		t.D = hx.G.Mul(hx.G.Generator(), hx.ExpandFr(tx.Seed, "arbD", 0))
		for k := 0; k < 8; k++ {
			t.L[k] = hx.G.Mul(hx.G.CRS()[k], hx.ExpandFr(tx.Seed, "arbL", k))
			t.R[k] = hx.G.Mul(hx.G.CRS()[k+8], hx.ExpandFr(tx.Seed, "arbR", k))
		}
		t.A = hx.ExpandFr(tx.Seed, "arbA", 0)
		t.class = "arbitrary"
	case "zero_elem":
		t.class = "zero_elem"
		switch tx.Seed % 4 {
		case 0:
			t.Cs[i], t.zeroAt = zeroElem, "C"
		case 1:
			t.D, t.zeroAt = zeroElem, "D"
		case 2:
			t.L[j], t.zeroAt = zeroElem, "L"
		default:
			t.R[j], t.zeroAt = zeroElem, "R"
		}
	case "splice_D":
		if hx.G.Equal(t.D, second.D) {
			t.class = "identical"
		}
		t.D = second.D
	case "splice_IPA":
		same := t.A.Cmp(second.A) == 0
		for k := 0; k < 8 && same; k++ {
			same = hx.G.Equal(t.L[k], second.L[k]) && hx.G.Equal(t.R[k], second.R[k])
		}
		if same {
			t.class = "identical"
		}
		t.L, t.R, t.A = second.L, second.R, second.A
	default:
		panic(hx.Inconclusive{Msg: "unknown transform " + tx.Kind})
	}
	return t, true
}

func resizePts(p []hx.RPt, k int) []hx.RPt {
	out := append([]hx.RPt(nil), p...)
	for len(out) < k {
		out = append(out, hx.G.CRS()[len(out)])
	}
	return out[:k]
}

func (t tuple) lens() (ny, nz int) {
	ny, nz = len(t.Cs), len(t.Cs)
	if t.class == "shape" {
		if t.lenYs >= 0 {
			ny = t.lenYs
		}
		if t.lenZs >= 0 {
			nz = t.lenZs
		}
	}
	return
}

func padBig(v []*big.Int, n int) []*big.Int {
	out := append([]*big.Int(nil), v...)
	for len(out) < n {
		out = append(out, big.NewInt(int64(len(out))))
	}
	return out[:n]
}
func padInt(v []int, n int) []int {
	out := append([]int(nil), v...)
	for len(out) < n {
		out = append(out, len(out))
	}
	return out[:n]
}

// verdicts runs both verifiers on one tuple.
func multiVerdicts(t tuple) (refOK bool, refErr error, implOK bool, implErr error, panicErr error) {
	ny, nz := t.lens()
	ys, zs := padBig(t.ys, ny), padInt(t.zs, nz)
	if t.class != "zero_elem" {
		rp := ref.MultiProof[hx.FE]{D: t.D, IPA: ref.IPAProof[hx.FE]{L: t.L, R: t.R, A: t.A}}
		refOK, refErr = ref.MultiVerify(hx.G, ref.NewTranscript(t.label), rp, t.Cs, ys, zs)
	}
	cfg := Cfg()
	proof := &multiproof.MultiProof{D: hx.ToImpl(t.D), IPA: ipa.IPAProof{L: hx.ToImplSlice(t.L), R: hx.ToImplSlice(t.R), A_scalar: hx.FrFromBig(t.A)}}
	if t.viaRead && len(t.L) == 8 && len(t.R) == 8 && t.class != "zero_elem" {
		ok := hx.G.IsValid(t.D)
		for i := 0; i < 8 && ok; i++ {
			ok = hx.G.IsValid(t.L[i]) && hx.G.IsValid(t.R[i])
		}
		if ok { // the verifier sees the proof as it comes off the wire
			d := hx.G.Compress(t.D)
			wire := append([]byte(nil), d[:]...)
			for _, side := range [][]hx.RPt{t.L, t.R} {
				for _, p := range side {
					e := hx.G.Compress(p)
					wire = append(wire, e[:]...)
				}
			}
			wire = append(wire, ref.LE32(ref.FrMod(t.A))...)
			var decoded multiproof.MultiProof
			var rerr error
			if perr := hx.Try(func() { rerr = decoded.Read(bytes.NewReader(wire)) }); perr == nil && rerr == nil {
				proof = &decoded
			}
		}
	}
	Cs := make([]*banderwagon.Element, len(t.Cs))
	sharedC := map[hx.RPt]*banderwagon.Element{}
	for k := range t.Cs {
		if prev, ok := sharedC[t.Cs[k]]; ok && t.share {
			Cs[k] = prev
			continue
		}
		e := hx.ToImpl(t.Cs[k])
		Cs[k] = &e
		sharedC[t.Cs[k]] = &e
	}
	ysI := make([]*fr.Element, len(ys))
	sharedY := map[string]*fr.Element{}
	for k := range ys {
		if prev, ok := sharedY[ys[k].Text(16)]; ok && t.share {
			ysI[k] = prev
			continue
		}
		e := hx.FrFromBig(ys[k])
		ysI[k] = &e
		sharedY[ys[k].Text(16)] = &e
	}
	zsI := make([]uint8, len(zs))
	for k := range zs {
		zsI[k] = uint8(zs[k])
	}
	panicErr = hx.Try(func() {
		implOK, implErr = multiproof.CheckMultiProof(common.NewTranscript(t.label), cfg, proof, Cs, ysI, zsI)
	})
	return
}

func judge(level, desc, class string, refOK bool, refErr error, implOK bool, implErr, panicErr error) error {
	if panicErr != nil {
		return fmt.Errorf("%s %s: %w", level, desc, panicErr)
	}
	switch {
	case class == "zero_elem":
		if implOK {
			return fmt.Errorf("%s %s: verifier accepted a statement/proof containing the all-zero pseudo-element", level, desc)
		}
	case refErr != nil: // wrong shape
		if implOK || implErr == nil {
			return fmt.Errorf("%s %s: wrong-shape input must give (false, error); got (%v, %v)", level, desc, implOK, implErr)
		}
	default:
		if implErr != nil {
			return fmt.Errorf("%s %s: well-shaped input gave error %v (reference verdict %v)", level, desc, implErr, refOK)
		}
		if implOK != refOK {
			return fmt.Errorf("%s %s: go-ipa verdict %v, reference verifier %v", level, desc, implOK, refOK)
		}
	}
	return nil
}

func evalC02(c c02Case, rec *hx.Rec) error {
	rec.Sample(c)
	b, err := c.Set.build()
	if err != nil {
		return err
	}
	runNoise(c.Set.Noise, 3, true)
	// honest proof from the reference prover
	rproof := ref.MultiProve(hx.G, ref.NewTranscript(c.Set.Label), b.CsRef, b.fsBig, b.zsInt)
	h := tuple{label: c.Set.Label, Cs: b.CsRef, zs: b.zsInt, ys: b.ysBig, D: rproof.D, L: rproof.IPA.L, R: rproof.IPA.R, A: rproof.IPA.A, class: "honest", lenYs: -1, lenZs: -1, share: c.Set.ShareY, viaRead: hx.Hash64(fmt.Sprint(c.Set.Open))%2 == 0}
	// a second honest proof (same polynomials, indices shifted) for splices
	zs2 := make([]int, len(b.zsInt))
	for i, z := range b.zsInt {
		zs2[i] = (z + 1) & 255
	}
	r2 := ref.MultiProve(hx.G, ref.NewTranscript(c.Set.Label), b.CsRef, b.fsBig, zs2)
	second := tuple{D: r2.D, L: r2.IPA.L, R: r2.IPA.R, A: r2.IPA.A}

	ro, re, io, ie, pe := multiVerdicts(h)
	rec.Eval(1)
	if !ro || re != nil {
		panic(hx.Inconclusive{Msg: fmt.Sprintf("reference verifier rejects the reference prover's proof (%v, %v)", ro, re)})
	}
	if err := judge("multiproof", "honest", "honest", ro, re, io, ie, pe); err != nil {
		return err
	}
	rec.Label("accept:honest")
	txs := append([]transform(nil), c.Tx...)
	zseed := hx.Hash64(fmt.Sprint(c.Set.Open))
	txs = append(txs, transform{Kind: "splice_D"}, transform{Kind: "splice_IPA"},
		transform{Kind: "zero_elem", I: int(zseed % 8), J: int(zseed >> 8 % 8), Seed: zseed >> 16})
	for _, tx := range txs {
		t, ok := applyMulti(h, second, tx)
		if !ok {
			rec.Label("tx_not_applicable")
			continue
		}
		ro, re, io, ie, pe := multiVerdicts(t)
		rec.Eval(1)
		if err := judge("multiproof", fmt.Sprintf("%+v", tx), t.class, ro, re, io, ie, pe); err != nil {
			return err
		}
		switch {
		case t.class == "zero_elem":
			rec.Label("reject:zero_elem:" + t.zeroAt)
			rec.NT("m", c.Set, tx)
		case re != nil:
			rec.Label("shape:" + tx.Kind)
			rec.NT("m", c.Set, tx)
		case !ro:
			rec.Label("reject:" + tx.Kind)
			rec.NT("m", c.Set, tx)
			rec.SampleNT(map[string]any{"set": c.Set, "tx": tx, "reference": "reject", "go-ipa": "reject"})
		default:
			rec.Label("accept:" + tx.Kind)
			if t.class == "value" || t.class == "arbitrary" {
				rec.Label("ACCEPTED_VALUE_CHANGE:" + tx.Kind) // both verifiers accept a changed value: worth a look, never a violation
			}
		}
	}
	return evalC02IPA(c, b, rec)
}

// ---- one level down: ipa.CheckIPAProof

type ipaTuple struct {
	label string
	C     hx.RPt
	z, y  *big.Int
	L, R  []hx.RPt
	A     *big.Int
	class string
}

func ipaVerdicts(t ipaTuple) (refOK bool, refErr error, implOK bool, implErr error, panicErr error) {
	if t.class != "zero_elem" {
		refOK, refErr = ref.IPAVerify(hx.G, ref.NewTranscript(t.label), t.C, ref.IPAProof[hx.FE]{L: t.L, R: t.R, A: t.A}, t.z, t.y)
	}
	proof := ipa.IPAProof{L: hx.ToImplSlice(t.L), R: hx.ToImplSlice(t.R), A_scalar: hx.FrFromBig(t.A)}
	panicErr = hx.Try(func() {
		implOK, implErr = ipa.CheckIPAProof(common.NewTranscript(t.label), Cfg(), hx.ToImpl(t.C), proof, hx.FrFromBig(t.z), hx.FrFromBig(t.y))
	})
	return
}

func evalC02IPA(c c02Case, b *builtSet, rec *hx.Rec) error {
	z := new(big.Int).Mod(hx.BigHex(c.Point), ref.R)
	f := b.polysBig[0]
	C := b.CsRef[0]
	pr := ref.IPAProve(hx.G, ref.NewTranscript(c.Set.Label), C, f, z)
	h := ipaTuple{label: c.Set.Label, C: C, z: z, y: ref.EvalAt(f, z), L: pr.L, R: pr.R, A: pr.A, class: "honest"}
	ro, re, io, ie, pe := ipaVerdicts(h)
	rec.Eval(1)
	if !ro || re != nil {
		panic(hx.Inconclusive{Msg: "reference IPA verifier rejects the reference prover's proof"})
	}
	if err := judge("ipa", "honest point="+c.Point, "honest", ro, re, io, ie, pe); err != nil {
		return err
	}
	ipaTxs := append(append([]transform(nil), c.IPATx...), transform{Kind: "zero_elem", J: int(hx.Hash64(c.Point) % 8), Seed: hx.Hash64(c.Point, "z") >> 7})
	for _, tx := range ipaTxs {
		t := h
		t.L = append([]hx.RPt(nil), h.L...)
		t.R = append([]hx.RPt(nil), h.R...)
		t.class = "value"
		j := tx.J % 8
		switch tx.Kind {
		case "C_offset":
			t.C = hx.G.Add(t.C, smallPoint(tx.Seed))
		case "z_offset":
			t.z = ref.FrAdd(t.z, nonzeroDelta(tx.Seed))
		case "z_cross": // jump across the 255|256 boundary
			if t.z.Cmp(big.NewInt(256)) < 0 {
				t.z = big.NewInt(int64(256 + tx.Seed%3))
			} else {
				t.z = big.NewInt(int64(255 - tx.Seed%3))
			}
		case "y_offset":
			t.y = ref.FrAdd(t.y, nonzeroDelta(tx.Seed))
		case "L_offset":
			t.L[j] = hx.G.Add(t.L[j], smallPoint(tx.Seed))
		case "R_offset":
			t.R[j] = hx.G.Add(t.R[j], smallPoint(tx.Seed))
		case "A_offset":
			t.A = ref.FrAdd(t.A, nonzeroDelta(tx.Seed))
		case "swap_LR":
			if hx.G.Equal(t.L[j], t.R[j]) {
				continue
			}
			t.L[j], t.R[j] = t.R[j], t.L[j]
		case "swap_LL":
			k := (j + 1 + tx.I%7) % 8
			if hx.G.Equal(t.L[j], t.L[k]) {
				continue
			}
			t.L[j], t.L[k] = t.L[k], t.L[j]
		case "rerep_C":
			t.C, t.class = hx.Rep(t.C, 1+int(tx.Seed%3), tx.Seed), "rep"
		case "rerep_L":
			t.L[j], t.class = hx.Rep(t.L[j], 1+int(tx.Seed%3), tx.Seed), "rep"
		case "rerep_all":
			t.C = hx.Rep(t.C, 3, tx.Seed)
			for k := 0; k < 8; k++ {
				t.L[k] = hx.Rep(t.L[k], 1+int((tx.Seed+uint64(k))%3), tx.Seed+uint64(k))
				t.R[k] = hx.Rep(t.R[k], 1+int((tx.Seed>>2+uint64(k))%3), tx.Seed+50+uint64(k))
			}
			t.class = "rep"
		case "len_L":
			t.L, t.class = resizePts(t.L, []int{0, 7, 9}[tx.Seed%3]), "shape"
		case "len_R":
			t.R, t.class = resizePts(t.R, []int{0, 7, 9}[tx.Seed%3]), "shape"
		case "len_LR":
			k := []int{0, 1, 7, 9, 16}[tx.Seed%5]
			t.L, t.R, t.class = resizePts(t.L, k), resizePts(t.R, k), "shape"
		case "arbitrary":
			t.C = hx.G.Mul(hx.G.CRS()[tx.Seed%256], hx.ExpandFr(tx.Seed, "iC", 0))
			t.z, t.y, t.A = hx.ExpandFr(tx.Seed, "iz", 0), hx.ExpandFr(tx.Seed, "iy", 0), hx.ExpandFr(tx.Seed, "iA", 0)
			for k := 0; k < 8; k++ {
				t.L[k] = hx.G.Mul(hx.G.CRS()[k], hx.ExpandFr(tx.Seed, "iL", k))
				t.R[k] = hx.G.Mul(hx.G.CRS()[k+9], hx.ExpandFr(tx.Seed, "iR", k))
			}
			t.class = "arbitrary"
		case "zero_elem":
			t.class = "zero_elem"
			switch tx.Seed % 3 {
			case 0:
				t.C = zeroElem
			case 1:
				t.L[j] = zeroElem
			default:
				t.R[j] = zeroElem
			}
		case "label_change":
			t.label += "y"
		default:
			panic(hx.Inconclusive{Msg: "unknown ipa transform " + tx.Kind})
		}
		ro, re, io, ie, pe := ipaVerdicts(t)
		rec.Eval(1)
		if err := judge("ipa", fmt.Sprintf("point=%s %+v", c.Point, tx), t.class, ro, re, io, ie, pe); err != nil {
			return err
		}
		switch {
		case t.class == "zero_elem":
			rec.Label("ipa:reject:zero_elem")
			rec.NT("i", c.Set.Polys[0], c.Point, tx)
		case re != nil:
			rec.Label("ipa:shape:" + tx.Kind)
			rec.NT("i", c.Set.Polys[0], c.Point, tx)
		case !ro:
			rec.Label("ipa:reject:" + tx.Kind)
			rec.NT("i", c.Set.Polys[0], c.Point, tx)
		default:
			rec.Label("ipa:accept:" + tx.Kind)
		}
	}
	return nil
}

var c02Part = hx.NewPart("C02", "verdicts", genC02, evalC02)

func TestC02(t *testing.T) {
	s := hx.Start(t, "C02")
	defer s.Finish()
	s.Guard(func() { Cfg() })
	// statements far larger than the drawn ones (block sizes of the r^i weights, MSM window thresholds of E): one per shard
	bigSets := []int{1025, 2049, 1024, 1030, 4097, 770}
	for i, n := range bigSets {
		if hx.Sharded(i) && (i < 4 || hx.Thorough()) {
			set := manySet(n, 3, 100, []string{"dense", "ramp"}[i%2])
			set.ShareY = i%2 == 0
			c02Part.EvalCase(s, c02Case{Set: set, Point: "5", Tx: []transform{{Kind: "swap_open", I: n - 1}, {Kind: "y_offset", I: n - 1, Seed: 7}, {Kind: "y_pair", I: n - 2, Seed: 9}, {Kind: "y_pair", I: n - 257, Seed: 11}}})
		}
	}
	for i, d := range degenerateSets() {
		if hx.Thorough() || hx.Sharded(i+9) {
			c02Part.EvalCase(s, c02Case{Set: d, Point: "0", Tx: []transform{{Kind: "y_offset", I: 0, Seed: 3}, {Kind: "swap_open", I: 0}, {Kind: "drop_open", I: 0}, {Kind: "y_pair", I: 0, Seed: 5}, {Kind: "C_identity", I: 0}, {Kind: "D_identity"}}})
		}
	}
	c02Part.Run(s, hx.PerShard(hx.Pick(240, 4800)))
}
