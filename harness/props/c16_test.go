//go:build verif

package props

import (
	"bytes"
	"fmt"
	"math/big"
	"testing"

	gfr "github.com/consensys/gnark-crypto/ecc/bls12-381/fr"
	"github.com/crate-crypto/go-ipa/bandersnatch/fp"
	"github.com/crate-crypto/go-ipa/bandersnatch/fr"
	"github.com/crate-crypto/go-ipa/common"
	"pgregory.net/rapid"

	"verif/harness/hx"
	"verif/harness/ref"
)

// C16 — scalar encodings round-trip, reduce or reject exactly, and leave the input intact.

type c16Case struct {
	Bytes string `json:"bytes"` // hex of the byte string handed to every decoder
	Class string `json:"class"` // how the generator built it (informational)
}

var two256 = new(big.Int).Lsh(big.NewInt(1), 256)
var rMinus1c16 = new(big.Int).Sub(ref.R, big.NewInt(1))

func c16Values() map[string]*big.Int {
	r := ref.R
	return map[string]*big.Int{
		"0": big.NewInt(0), "1": big.NewInt(1), "2": big.NewInt(2),
		"r-2": new(big.Int).Sub(r, big.NewInt(2)), "r-1": new(big.Int).Sub(r, big.NewInt(1)),
		"r": new(big.Int).Set(r), "r+1": new(big.Int).Add(r, big.NewInt(1)),
		"2r-1": new(big.Int).Sub(new(big.Int).Lsh(r, 1), big.NewInt(1)), "2r": new(big.Int).Lsh(r, 1),
		"2r+1": new(big.Int).Add(new(big.Int).Lsh(r, 1), big.NewInt(1)),
		"4r":   new(big.Int).Lsh(r, 2), "19r": new(big.Int).Mul(r, big.NewInt(19)),
		"2^253": new(big.Int).Lsh(big.NewInt(1), 253), "2^255": new(big.Int).Lsh(big.NewInt(1), 255),
		"2^256-1": new(big.Int).Sub(two256, big.NewInt(1)), "p": new(big.Int).Set(ref.P),
		"p-1": new(big.Int).Sub(ref.P, big.NewInt(1)), "2^64": new(big.Int).Lsh(big.NewInt(1), 64),
		"2^64-1": new(big.Int).Sub(new(big.Int).Lsh(big.NewInt(1), 64), big.NewInt(1)),
		"2^128":  new(big.Int).Lsh(big.NewInt(1), 128), "2^192-1": new(big.Int).Sub(new(big.Int).Lsh(big.NewInt(1), 192), big.NewInt(1)),
	}
}

var c16ValueNames = func() []string {
	var out []string
	for k := range c16Values() {
		out = append(out, k)
	}
	// deterministic order
	for i := range out {
		for j := i + 1; j < len(out); j++ {
			if out[j] < out[i] {
				out[i], out[j] = out[j], out[i]
			}
		}
	}
	return out
}()

func genC16(t *rapid.T) c16Case {
	kind := rapid.SampledFrom([]string{"boundary", "boundary", "near", "uniform32", "uniformlen", "sparse", "scalar", "qlimbs", "qlimbs", "multiple", "multiple", "hi_multiple"}).Draw(t, "kind")
	var b []byte
	switch kind {
	case "boundary", "near":
		name := rapid.SampledFrom(c16ValueNames).Draw(t, "value")
		v := new(big.Int).Set(c16Values()[name])
		if kind == "near" {
			v.Add(v, big.NewInt(int64(rapid.IntRange(-3, 3).Draw(t, "delta"))))
			if v.Sign() < 0 {
				v.SetInt64(0)
			}
		}
		le := rapid.Bool().Draw(t, "little_endian")
		raw := v.Bytes() // minimal big-endian
		width := rapid.SampledFrom([]int{-1, 32, 32, 32, 33, 40, 64, 31, 16}).Draw(t, "width")
		if width >= 0 {
			if len(raw) > width {
				raw = raw[len(raw)-width:] // keep the low bytes
			} else {
				raw = append(make([]byte, width-len(raw)), raw...)
			}
		}
		if le {
			for i, j := 0, len(raw)-1; i < j; i, j = i+1, j-1 {
				raw[i], raw[j] = raw[j], raw[i]
			}
		}
		b = raw
		kind = fmt.Sprintf("%s:%s:le=%v:w=%d", kind, name, le, width)
	case "hi_multiple": // 64 bytes: a canonical low half followed (little-endian) / preceded (big-endian) by a half that is an exact multiple of r
		lo := hx.ExpandFr(rapid.Uint64().Draw(t, "seed"), "c16lo", 0)
		if rapid.Bool().Draw(t, "lo_small") {
			lo = big.NewInt(int64(rapid.IntRange(0, 3).Draw(t, "lo")))
		}
		hi := new(big.Int).Mul(ref.R, big.NewInt(int64(rapid.IntRange(0, 8).Draw(t, "k"))))
		if rapid.Bool().Draw(t, "little_endian") {
			b = append(ref.LE32(lo), ref.LE32(hi)...)
		} else {
			b = append(ref.BE32(hi), ref.BE32(lo)...)
		}
	case "multiple": // k*r +- d: just below / above a multiple of the modulus, d from 0 up to about 2^189
		k := int64(rapid.IntRange(0, 9).Draw(t, "k"))
		v := new(big.Int).Mul(ref.R, big.NewInt(k))
		wide := rapid.IntRange(0, 5).Draw(t, "wide") == 0
		if wide { // longer strings: multiples far beyond 2^256
			v.Mul(v, new(big.Int).Add(new(big.Int).Lsh(big.NewInt(1), uint(rapid.IntRange(1, 200).Draw(t, "kshift"))), big.NewInt(1)))
		}
		d := new(big.Int).Lsh(big.NewInt(1), uint(rapid.SampledFrom([]int{0, 1, 31, 32, 63, 64, 127, 128, 187, 188, 189, 190}).Draw(t, "dexp")))
		d.Add(d, big.NewInt(int64(rapid.IntRange(-1, 1).Draw(t, "dadj"))))
		if rapid.Bool().Draw(t, "below") {
			v.Sub(v, d)
		} else {
			v.Add(v, d)
		}
		if v.Sign() < 0 {
			v.Neg(v)
		}
		raw := v.Bytes()
		if !wide && len(raw) > 32 {
			raw = raw[len(raw)-32:]
		}
		width := rapid.SampledFrom([]int{32, 32, 32, 33, 40, 64}).Draw(t, "width")
		if len(raw) < width {
			raw = append(make([]byte, width-len(raw)), raw...)
		}
		if rapid.Bool().Draw(t, "little_endian") {
			for i, j := 0, len(raw)-1; i < j; i, j = i+1, j-1 {
				raw[i], raw[j] = raw[j], raw[i]
			}
		}
		b = raw
	case "qlimbs": // every limb chosen relative to the corresponding limb of the modulus
		cls := rapid.SliceOfN(rapid.IntRange(0, 5), 4, 4).Draw(t, "limb_classes")
		v := qLimbValue(cls, rapid.Uint64().Draw(t, "seed"))
		if rapid.Bool().Draw(t, "little_endian") {
			b = ref.LE32(v)
		} else {
			b = ref.BE32(v)
		}
	case "uniform32":
		b = hx.ExpandBytes(rapid.Uint64().Draw(t, "seed"), "c16", 32)
	case "uniformlen":
		n := rapid.IntRange(0, 64).Draw(t, "len")
		b = hx.ExpandBytes(rapid.Uint64().Draw(t, "seed"), "c16", n)
	case "sparse":
		n := rapid.SampledFrom([]int{32, 32, 0, 1, 31, 33, 64}).Draw(t, "len")
		b = make([]byte, n)
		k := rapid.IntRange(0, 3).Draw(t, "nset")
		for i := 0; i < k && n > 0; i++ {
			b[rapid.IntRange(0, n-1).Draw(t, "pos")] = rapid.SampledFrom([]byte{1, 0x80, 0xff, 0x73, 0x1c}).Draw(t, "byte")
		}
	case "scalar":
		v := hx.ExpandFr(rapid.Uint64().Draw(t, "seed"), "c16s", 0)
		if rapid.Bool().Draw(t, "little_endian") {
			b = ref.LE32(v)
		} else {
			b = ref.BE32(v)
		}
	}
	return c16Case{Bytes: hx.HexBytes(b), Class: kind}
}

// qLimbValue builds a 256-bit integer whose i-th 64-bit limb is {q_i-1, q_i, q_i+1, 0, 2^64-1, random} by class.
func qLimbValue(cls []int, seed uint64) *big.Int {
	mask := new(big.Int).SetUint64(^uint64(0))
	v := new(big.Int)
	for i := 3; i >= 0; i-- {
		qi := new(big.Int).And(new(big.Int).Rsh(ref.R, uint(64*i)), mask)
		var l *big.Int
		switch cls[i] {
		case 0:
			l = new(big.Int).Sub(qi, big.NewInt(1))
		case 1:
			l = qi
		case 2:
			l = new(big.Int).Add(qi, big.NewInt(1))
		case 3:
			l = new(big.Int)
		case 4:
			l = new(big.Int).Set(mask)
		default:
			l = new(big.Int).And(hx.Expand(seed, "qlimb", i), mask)
		}
		v.Lsh(v, 64)
		v.Or(v, l.And(l, mask))
	}
	return v
}

func evalC16(c c16Case, rec *hx.Rec) error {
	in := hx.BytesHex(c.Bytes)
	rec.Eval(1)
	rec.Sample(c)
	be := new(big.Int).SetBytes(in)
	le := ref.FromLE(in)
	nontrivial := len(in) != 32 || be.Cmp(ref.R) >= 0 || le.Cmp(ref.R) >= 0
	rec.Label(fmt.Sprintf("len=%s", lenClass(len(in))))
	if be.Cmp(ref.R) >= 0 {
		rec.Label("be>=r")
	}
	if le.Cmp(ref.R) >= 0 {
		rec.Label("le>=r")
	}
	if le.Cmp(ref.R) == 0 || be.Cmp(ref.R) == 0 {
		rec.Label("value==r")
	}

	check := func(name string, want *big.Int, dec func(z *fr.Element, b []byte) (bool, error)) error {
		// decode twice on the same buffer; the buffer is a window of a larger caller-owned array (spare capacity behind it)
		backing := make([]byte, len(in)+40)
		for i := range backing {
			backing[i] = 0xC3
		}
		copy(backing, in)
		buf := backing[:len(in)]
		tailOK := func() bool {
			for _, x := range backing[len(in):] {
				if x != 0xC3 {
					return false
				}
			}
			return true
		}
		var z1, z2 fr.Element
		z1 = hx.FrSetRaw(new(big.Int).Sub(ref.R, big.NewInt(0x1234567))) // dirty receivers: every limb non-zero, and
		z2 = hx.FrSetRaw(new(big.Int).Rsh(ref.R, 1))                     // different in the two calls
		var ok1, ok2 bool
		var e1, e2 error
		if perr := hx.Try(func() { ok1, e1 = dec(&z1, buf) }); perr != nil {
			return fmt.Errorf("%s: %w", name, perr)
		}
		if !bytes.Equal(buf, in) {
			return fmt.Errorf("%s modified its input: %x -> %x", name, in, buf)
		}
		if !tailOK() {
			return fmt.Errorf("%s wrote into the caller's array behind the %d-byte slice it was given: %x", name, len(in), backing[len(in):])
		}
		if perr := hx.Try(func() { ok2, e2 = dec(&z2, buf) }); perr != nil {
			return fmt.Errorf("%s (second call): %w", name, perr)
		}
		if !bytes.Equal(buf, in) || !tailOK() {
			return fmt.Errorf("%s modified its input (or the array behind it) on the second call: %x -> %x", name, in, backing)
		}
		wantOK := want != nil
		if ok1 != wantOK || ok2 != wantOK {
			return fmt.Errorf("%s: accepted=%v/%v, reference says %v (input %x, err=%v/%v)", name, ok1, ok2, wantOK, in, e1, e2)
		}
		if !wantOK {
			if e1 == nil {
				return fmt.Errorf("%s: rejected without an error value", name)
			}
			return nil
		}
		if e1 != nil {
			return fmt.Errorf("%s: accepted but returned error %v", name, e1)
		}
		if !hx.FrReduced(&z1) {
			return fmt.Errorf("%s: result limbs not reduced: %v", name, z1)
		}
		if got := hx.FrToBig(&z1); got.Cmp(want) != 0 {
			return fmt.Errorf("%s(%x) = %s, reference %s", name, in, got.Text(16), want.Text(16))
		}
		if z1 != z2 {
			return fmt.Errorf("%s: decoding the same buffer twice gave %v then %v", name, z1, z2)
		}
		return nil
	}

	if err := check("fr.SetBytes", new(big.Int).Mod(be, ref.R), func(z *fr.Element, b []byte) (bool, error) {
		z.SetBytes(b)
		return true, nil
	}); err != nil {
		return err
	}
	if err := check("fr.SetBytesLE", new(big.Int).Mod(le, ref.R), func(z *fr.Element, b []byte) (bool, error) {
		z.SetBytesLE(b)
		return true, nil
	}); err != nil {
		return err
	}
	var wantCanon *big.Int
	if le.Cmp(ref.R) < 0 {
		wantCanon = le
	}
	if err := check("fr.SetBytesLECanonical", wantCanon, func(z *fr.Element, b []byte) (bool, error) {
		res, err := z.SetBytesLECanonical(b)
		if err == nil && res != z {
			return true, fmt.Errorf("returned pointer is not the receiver")
		}
		return err == nil, err
	}); err != nil {
		return err
	}
	// common.ReadScalar: exactly the first 32 bytes, canonical little-endian.
	var wantRead *big.Int
	if len(in) >= 32 {
		if v := ref.FromLE(in[:32]); v.Cmp(ref.R) < 0 {
			wantRead = v
		}
	}
	if err := check("common.ReadScalar", wantRead, func(z *fr.Element, b []byte) (bool, error) {
		rd := bytes.NewReader(b)
		res, err := common.ReadScalar(rd)
		if err != nil {
			return false, err
		}
		if rd.Len() != len(b)-32 {
			return true, fmt.Errorf("consumed %d bytes instead of 32", len(b)-rd.Len())
		}
		// the scalar a call returns belongs to the caller: a LATER ReadScalar (of other bytes) must not change it
		want := *res
		other := ref.LE32(big.NewInt(11))
		if r2, err2 := common.ReadScalar(bytes.NewReader(other)); err2 != nil || r2 == nil {
			return true, fmt.Errorf("ReadScalar of the canonical encoding of 11 failed: %v", err2)
		}
		if *res != want {
			return true, fmt.Errorf("the scalar returned by ReadScalar changed when ReadScalar was called again")
		}
		*z = *res
		return true, nil
	}); err != nil {
		return err
	}

	// Encoders and round-trips on the scalar with value le mod r.
	v := new(big.Int).Mod(le, ref.R)
	s := hx.FrFromBig(v)
	sCopy := s
	var gotBE, gotLE [32]byte
	if perr := hx.Try(func() { gotBE = s.Bytes(); gotLE = s.BytesLE() }); perr != nil {
		return perr
	}
	if s != sCopy {
		return fmt.Errorf("Bytes/BytesLE modified the scalar")
	}
	if !bytes.Equal(gotBE[:], ref.BE32(v)) {
		return fmt.Errorf("Bytes() of %s = %x, reference %x", v.Text(16), gotBE, ref.BE32(v))
	}
	if !bytes.Equal(gotLE[:], ref.LE32(v)) {
		return fmt.Errorf("BytesLE() of %s = %x, reference %x", v.Text(16), gotLE, ref.LE32(v))
	}
	var back fr.Element
	back.SetBytes(gotBE[:])
	if back != s {
		return fmt.Errorf("SetBytes(Bytes(s)) != s for s=%s", v.Text(16))
	}
	back = fr.Element{}
	back.SetBytesLE(gotLE[:])
	if back != s {
		return fmt.Errorf("SetBytesLE(BytesLE(s)) != s for s=%s", v.Text(16))
	}
	back = fr.Element{}
	if _, err := back.SetBytesLECanonical(gotLE[:]); err != nil || back != s {
		return fmt.Errorf("SetBytesLECanonical(BytesLE(s)) failed for s=%s: %v", v.Text(16), err)
	}
	// fp.BytesLE: little-endian canonical encoding of a base-field element.
	var fe gfr.Element
	fe.SetBigInt(be)
	feCopy := fe
	var fle []byte
	if perr := hx.Try(func() { fle = fp.BytesLE(fe) }); perr != nil {
		return perr
	}
	if want := ref.LE32(new(big.Int).Mod(be, ref.P)); !bytes.Equal(fle, want) || fe != feCopy {
		return fmt.Errorf("fp.BytesLE(%s) = %x, reference %x", be.Text(16), fle, want)
	}
	if nontrivial {
		rec.NT(c.Bytes)
		rec.SampleNT(c)
	}
	return nil
}

func lenClass(n int) string {
	switch {
	case n == 0:
		return "0"
	case n < 32:
		return "1..31"
	case n == 32:
		return "32"
	case n <= 64:
		return "33..64"
	}
	return ">64"
}

var c16Decode = hx.NewPart("C16", "decode", genC16, evalC16)

func TestC16(t *testing.T) {
	s := hx.Start(t, "C16")
	defer s.Finish()
	// every boundary value in every layout, deterministically, in shard 0
	if hx.Shard() == 0 {
		vals := c16Values()
		for _, name := range c16ValueNames {
			for d := int64(-2); d <= 2; d++ {
				v := new(big.Int).Add(vals[name], big.NewInt(d))
				if v.Sign() < 0 || v.BitLen() > 256 {
					continue
				}
				c16Decode.EvalCase(s, c16Case{Bytes: hx.HexBytes(ref.LE32(v)), Class: "sweep-le:" + name})
				c16Decode.EvalCase(s, c16Case{Bytes: hx.HexBytes(ref.BE32(v)), Class: "sweep-be:" + name})
			}
		}
	}
	// every combination of limbs relative to the modulus limbs (5^4 deterministic classes), partitioned over shards
	u := 0
	for a := 0; a < 5; a++ {
		for b := 0; b < 5; b++ {
			for c := 0; c < 5; c++ {
				for d := 0; d < 5; d++ {
					u++
					if hx.Sharded(u) {
						v := qLimbValue([]int{a, b, c, d}, 0)
						c16Decode.EvalCase(s, c16Case{Bytes: hx.HexBytes(ref.LE32(v)), Class: fmt.Sprintf("qlimbs-le:%d%d%d%d", a, b, c, d)})
						c16Decode.EvalCase(s, c16Case{Bytes: hx.HexBytes(ref.BE32(v)), Class: fmt.Sprintf("qlimbs-be:%d%d%d%d", a, b, c, d)})
					}
				}
			}
		}
	}
	for k := int64(0); k <= 9; k++ { // 64-byte strings whose upper half is an exact multiple of r (the value reduces to the lower half)
		if hx.Sharded(int(k)) {
			hi := new(big.Int).Mul(ref.R, big.NewInt(k))
			if hi.BitLen() > 256 {
				continue
			}
			for _, lo := range []*big.Int{big.NewInt(0), big.NewInt(1), rMinus1c16, hx.ExpandFr(uint64(k), "c16lo", 1)} {
				c16Decode.EvalCase(s, c16Case{Bytes: hx.HexBytes(append(ref.LE32(lo), ref.LE32(hi)...)), Class: fmt.Sprintf("hi_multiple-le:%d", k)})
				c16Decode.EvalCase(s, c16Case{Bytes: hx.HexBytes(append(ref.BE32(hi), ref.BE32(lo)...)), Class: fmt.Sprintf("hi_multiple-be:%d", k)})
			}
		}
	}
	c16Decode.Run(s, hx.PerShard(hx.Pick(400000, 24000000)))
	c16Decode.RunConcurrent(s, 8, hx.Pick(3000, 40000))
}
