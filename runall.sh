#!/bin/bash
# Runs every claimed check's quick (or $1) tier on the current tree and validates the evidence files.
tier=${1:-quick}
cd /verif
ids=$(python3 -c "import json;print(' '.join(c['property_id'] for c in json.load(open('MANIFEST.json'))['checks']))")
rc=0
for id in $ids; do
  out=$(./check $id $tier 2>&1); r=$?
  echo "$out" | grep -E "^\[|VIOLATION|INCONCLUSIVE|KNOWN" | cut -c1-300
  [ $r -ne 0 ] && { echo "   !! $id exit=$r"; rc=1; }
done
python3-vt - <<'PY'
import json,jsonschema,glob
sch=json.load(open('/root/.vp/EVIDENCE.schema.json'))
for f in sorted(glob.glob('/verif/evidence/*.json')):
    ev=json.load(open(f))
    try: jsonschema.validate(ev,sch); print(f.split('/')[-1],'valid',ev['tier'],ev['coverage']['evaluations'],ev['coverage']['distinct_nontrivial'],ev['violations'])
    except Exception as e: print(f,'INVALID',str(e)[:200])
PY
exit $rc
