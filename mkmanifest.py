#!/usr/bin/env python3
"""Regenerates MANIFEST.json from checkcfg.py (claimed checks) and properties.jsonl (everything else is listed
under not_applicable with the reason recorded in checkcfg.NOT_CLAIMED or 'check not built yet')."""
import json, os, sys
ROOT = os.path.dirname(os.path.abspath(__file__))
sys.path.insert(0, ROOT)
import checkcfg

TECH_EXTRA = {
    "C05": "complete enumeration of the (position, window, digit, carry) space of the table recoding in both tiers",
    "C12": "generated concurrent call plans (who runs what, concurrent-first or sequential-first) under the Go race "
           "detector, differential against the same calls executed alone, watchdog for termination",
    "C13": "stateful generation of call histories with a bit-exact deep fingerprint of configuration, package variables and "
           "caller inputs before/after every call (invariant over the history)",
    "C15": "complete boundary cross product in both tiers, run in two build configurations (assembly with ADX, noadx) "
           "and against the portable generic code",
    "C17": "complete enumeration of every block position x byte value of the 2-adic discrete log",
    "C18": "all 256 domain indices and all 1022 table entries enumerated",
    "C20": "complete enumeration of the (n, m) grid 0..2048 x 1..300 in both tiers; validity predicate over the set of "
           "ranges (many correct splits are admitted)",
}


def technique(pid, c):
    t = ("property-based testing: rapid v1.3.0 generators plus deterministic enumeration / forced cases, every case decided "
         "by an explicit oracle (independent reference implementation, round-trip, metamorphic relation or validity predicate)")
    if pid in TECH_EXTRA:
        t += "; " + TECH_EXTRA[pid]
    fz = c.get("thorough", {}).get("fuzz")
    if fz:
        t += "; Go native coverage-guided fuzzing with the oracle inside the target in the thorough tier (" + ", ".join(f["target"] for f in fz) + ")"
    return c.get("technique", t)


props = [json.loads(l) for l in open(os.path.join(ROOT, "properties.jsonl"))]
checks, na = [], []
for p in props:
    pid = p["id"]
    c = checkcfg.PROPS.get(pid)
    if c is None or c.get("unclaimed"):
        na.append({"property_id": pid, "reason": getattr(checkcfg, "NOT_CLAIMED", {}).get(pid, "check not built yet (work in progress)")})
        continue
    entry = {
        "property_id": pid,
        "quick_cmd": f"./check {pid} quick",
        "thorough_cmd": f"./check {pid} thorough",
        "evidence_file": f"/verif/evidence/{pid}.json",
        "replay_cmd_template": f"./check {pid} --replay {{path}}",
        "engine": "harness",
        "level_claimed": {
            "category": "exploration",
            "text": c.get("level_text", "generated-input search against an explicit oracle; the property held on every case explored"),
            "design_ref": c.get("design_ref", f"DESIGN.md section 4, {pid}"),
        },
        "level_note": c.get("level_note", "trusted base: the independent reference implementation in harness/ref (validated at start-up "
                                            "against cross-implementation vectors), math/big, gnark-crypto base-field arithmetic, rapid v1.3.0"),
        "technique": technique(pid, c),
    }
    checks.append(entry)
m = {
    "version": 1,
    "setup_cmd": "./check setup",
    "hooks": {
        "guard": "verif",
        "enable": "go test -tags verif,verif_<pkg> (sub-tags verif_elem, verif_ipa, verif_msm, verif_fr select the hook file of one package); "
                  "the harness module replaces github.com/crate-crypto/go-ipa with /repo, so every build uses /repo's working tree",
        "baseline_off_cmd": "cd /repo && GOFLAGS=-mod=mod GOPROXY=off GOSUMDB=off GOTOOLCHAIN=local go test -json -vet=off -count=1 -timeout 25m ./...",
        "source_commits": checkcfg.HOOK_COMMITS,
        "add_only": True,
    },
    "engines": [{
        "name": "harness", "path": "/verif/harness",
        "serves_properties": [c["property_id"] for c in checks],
        "kind_free_text": "Go module: independent reference implementation (ref), rapid-based generators and oracles (props), "
                          "case accounting and replay (hx); python driver ./check shards it over 16 processes and CPU-affinity/GOMAXPROCS configurations",
    }],
    "checks": checks,
    "notes": checkcfg.NOTES,
    "not_applicable": na,
}
json.dump(m, open(os.path.join(ROOT, "MANIFEST.json"), "w"), indent=1)
print(f"MANIFEST.json: {len(checks)} checks, {len(na)} not claimed")
