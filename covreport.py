#!/usr/bin/env python3
"""Developer tool: union of the statement coverage of go-ipa reached by the checks.
usage: VERIF_COVER=1 ./check <ID> quick   (for each ID; writes .run/cover/<ID>-quick.out)
       python3 covreport.py [--blocks]     (prints per-function coverage of the union and the never-reached blocks)"""
import glob, os, re, sys, collections
ROOT = os.path.dirname(os.path.abspath(__file__))
PFX = "github.com/crate-crypto/go-ipa/"
blocks = collections.defaultdict(lambda: [0, set()])
for f in sorted(glob.glob(os.path.join(ROOT, ".run", "cover", "*.out"))):
    pid = os.path.basename(f).split("-")[0]
    for line in open(f):
        if line.startswith("mode:"):
            continue
        key, n = line.rsplit(" ", 1)
        b = blocks[key]
        if int(n) > 0:
            b[0] += int(n)
            b[1].add(pid)
per_file = collections.defaultdict(list)
for key, (n, pids) in blocks.items():
    m = re.match(r"(.*):(\d+)\.(\d+),(\d+)\.(\d+) (\d+)$", key)
    per_file[m.group(1)].append((int(m.group(2)), int(m.group(4)), int(m.group(6)), n, pids))
tot = cov = 0
for fn in sorted(per_file):
    if fn.endswith("verif_hooks.go"):
        continue
    bl = sorted(per_file[fn])
    t = sum(b[2] for b in bl); c = sum(b[2] for b in bl if b[3] > 0)
    tot += t; cov += c
    print(f"{fn[len(PFX):]:50s} {c}/{t} statements ({100.0*c/max(t,1):.1f}%)")
    if "--blocks" in sys.argv:
        src = open(os.path.join("/repo", fn[len(PFX):])).read().split("\n")
        for (l0, l1, ns, n, pids) in bl:
            if n == 0:
                print(f"    never reached {l0}-{l1}: {src[l0-1].strip()[:110]}")
print(f"TOTAL {cov}/{tot} ({100.0*cov/max(tot,1):.1f}%)")
