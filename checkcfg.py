"""Per-property configuration of the driver: binary variant, process matrix, budgets, evidence text."""

VARIANTS = {
    "elem": {"tags": "verif,verif_elem"},
    "ipa": {"tags": "verif,verif_elem,verif_ipa"},
    "msm": {"tags": "verif,verif_elem,verif_msm"},
    "fr": {"tags": "verif,verif_fr"},
    "fr_noadx": {"tags": "verif,verif_fr,noadx"},
    "race": {"tags": "verif,verif_elem", "race": True},
    # the same harness built for a 32-bit platform (GOARCH=386 runs on this host): 32-bit int / uint, and the portable
    # (non-assembly) field arithmetic of go-ipa and gnark-crypto for real
    "elem386": {"tags": "verif,verif_elem", "goarch": "386"},
    "ipa386": {"tags": "verif,verif_elem,verif_ipa", "goarch": "386"},
    "msm386": {"tags": "verif,verif_elem,verif_msm", "goarch": "386"},
    "fr386": {"tags": "verif,verif_fr", "goarch": "386"},
}

NOISE_NOTE = (" About half of the cases are evaluated after 'history noise': a short seed-derived burst of unrelated, legal API calls "
              "(including calls that fail: malformed proofs, failing writers, un-normalisable elements, trusted decoding of bad "
              "points, large-then-small MSMs and commitments), because results must not depend on what ran before.")

CONC_NOTE = (" A quarter of the shard processes (all in the thorough tier) finally evaluate a few thousand further generated cases from 8 "
             "goroutines at once, each goroutine on its own cases, against the same oracle (a result that is only wrong while other "
             "callers are active must not hide behind a single-threaded harness).")

COMMON_ASSUMPTIONS = [
    "the independent reference (harness/ref: math/big + gnark-crypto base field, validated at start-up against the "
    "cross-implementation vectors) is correct",
    "gnark-crypto v0.13.0 base-field arithmetic (third-party, outside /repo) is correct",
    "exploration: the property held on every generated case; absence of violations elsewhere is not established",
]

PROPS = {
    "C01": {
        "test": "TestC01", "variant": "elem",
        "quick": {"shards": 16, "timeout": 1500,
                  "matrix": [{"cpus": c, "gomaxprocs": g} for (c, g) in
                             ((16, None), (1, None), (3, None), (16, 1), (2, None), (5, None), (16, 2), (1, 4),
                              (3, None), (7, None), (16, 4), (4, None), (16, None), (3, 16), (1, None), (16, 3))]},
        "thorough": {"shards": 32, "timeout": 7200,
                     "matrix": [{"cpus": c} for c in range(1, 17)] + [{"cpus": 16, "gomaxprocs": g} for g in (1, 2, 3, 4, 5, 7, 8, 12)]
                               + [{"cpus": c, "gomaxprocs": 16} for c in (1, 2, 3, 5)] + [{"cpus": 16}] * 4},
        "rule": "opening sets: n from {1,2,3,4,5,7,W-1,W,W+1,2W-1,2W,2W+1,3W+2 (W=NumCPU), 1..12, 30..60, 61..300}; index "
                "pattern in {all equal, distinct with stride, two clusters, extremes, gaps, uniform}; forced shapes: 256 / 512 openings at ONE index (+ others), 255+2, and opening counts at the "
                "verifier-MSM window thresholds 49,129,321,769,1793 (4097 in thorough); up to 6 distinct "
                "polynomials of kind zero/const/onehot/sparse/dense/max(r-1)/ramp/recipe (limb and window patterns), openings "
                "right below a hot position; commitment representation plain / "
                "rescaled / sign-flipped / both; shared commitment pointers; labels '', short, 900..2048 bytes; processes "
                "pinned to 1..16 CPUs by taskset (runtime.NumCPU follows) and GOMAXPROCS set below / above the CPU count. Non-trivial = at least two distinct "
                "evaluation indices; distinct by the full case." + NOISE_NOTE
                + " Round-4 additions: openings with equal claimed values may pass ONE shared *fr.Element (share_y), polynomial kinds whose non-zero evaluations in one half sum to zero ('cancel') or that are piecewise constant ('steps'). Forced degenerate statements: the zero / a constant polynomial opened 1, 2, 17, 300 times at one index under the empty label, through shared and separate objects.",
        "oracle": "round trip: CheckMultiProof(fresh transcript, same label, freshly rebuilt copies of the original commitments in the "
                  "generated representation / sharing pattern) == (true, nil); equal next challenge of both transcripts",
        "assumptions": COMMON_ASSUMPTIONS + ["NumCPU > 16 cannot be produced in this sandbox"],
    },
    "C03": {
        "test": "TestC03", "variant": "elem",
        "quick": {"shards": 16, "timeout": 1800,
                  "matrix": [{"cpus": c, "gomaxprocs": g} for (c, g) in
                             ((16, None), (1, 1), (2, 4), (3, 16), (5, 1), (16, 1), (16, 4), (1, 16),
                              (2, 1), (3, 4), (5, 16), (16, 16), (1, 4), (2, 16), (3, 1), (5, 4))]},
        "thorough": {"shards": 64, "timeout": 10800, "parallel": 16,
                     "matrix": [{"cpus": c, "gomaxprocs": g} for c in range(1, 17) for g in (1, 2, 4, 16)]},
        "rule": "opening sets as C01 with n <= 40 (each proved twice: as generated after a drawn prefix of unrelated API "
                "calls, then with every commitment re-represented) plus direct ipa.CreateIPAProof cases (polynomial kind x "
                "point class {0,1,2,127,128,254,255,256,257,2^64-1,2^64,2^128,r-1..r-3,0..600,uniform} x representation); "
                "process matrix NumCPU x GOMAXPROCS by taskset/env. Non-trivial = >= 2 distinct evaluation indices, or an IPA "
                "proof at an out-of-domain point; distinct by the full case." + NOISE_NOTE
                + " Round-4 additions: forced statements of 1025 and 2049 openings (1030 in thorough), a forced statement with adjacent identical openings (same commitment, same index; own object, shared pointer, other representation), evaluation points z = i +- 1/A'(i) and i + 2/A'(i) (a barycentric denominator equals 1, -1, 2).",
        "oracle": "differential: serialized proof bytes == bytes of the independent reference prover, and the next transcript "
                  "challenge == the reference transcript's; the reference does not depend on CPU count, schedule, "
                  "representation or history",
        "assumptions": COMMON_ASSUMPTIONS + ["schedules are sampled (repetition, GOMAXPROCS, affinity), not controlled"],
    },
    "C02": {
        "test": "TestC02", "variant": "elem",
        "quick": {"shards": 16, "timeout": 1800, "matrix": [{"cpus": c} for c in (16, 1, 2, 3, 16, 5, 16, 2, 3, 16, 7, 1, 16, 4, 3, 16)]},
        "thorough": {"shards": 16, "timeout": 10800, "matrix": [{"cpus": c} for c in (16, 1, 2, 3, 16, 5, 16, 2, 3, 16, 7, 1, 16, 4, 3, 16)]},
        "rule": "per case: an honest opening set (n<=24, incl. sizes above and not divisible by the CPU count; processes pinned to "
                "1..16 CPUs) proved by the REFERENCE prover, then 5..9 transformations from a "
                "catalogue (value-changing: offset/replace/negate/identity for C_i, z_i, y_i (incl. y->0), D, L_j, R_j, "
                "final scalar, swaps L/R, L/L, R/R, swapped/dropped/duplicated openings, label change, D or IPA part "
                "spliced from a second honest proof; representation-only: rescale/sign-flip of any element; shape: "
                "len(ys)/len(zs) +-1, zero openings, len(L)/len(R) in {0,1,7,9,16}; arbitrary valid elements/scalars; the "
                "all-zero pseudo-element in any position), and the same catalogue one level down for ipa.CheckIPAProof at "
                "an in- or out-of-domain point. Every tuple is judged by both verifiers. Non-trivial = a transformed tuple "
                "that the reference rejects (or classifies as wrong shape); distinct by (statement, transformation)." + NOISE_NOTE
                + ' Round-4 additions: bit-identical commitments and equal claimed values are handed over through one shared pointer in a quarter of the cases; compensating pairs of changes at two openings of the same index (y_pair, C_pair); forced statements of 1024, 1025, 1030 and 2049 openings (4097 in thorough) with changes applied to the last openings.',
        "oracle": "independent reference verifier (explicit basis folding, defining formula for b): go-ipa must return the "
                  "same boolean with err == nil for well-shaped input, (false, err != nil) for wrong shapes, never true for "
                  "a tuple containing the all-zero pseudo-element, never panic",
        "assumptions": COMMON_ASSUMPTIONS + ["functional agreement with the verification equation on generated tuples; "
                                             "cryptographic soundness against an adaptive adversary is not testable"],
    },
    "C04": {
        "test": "TestC04", "variant": "elem",
        "quick": {"shards": 16, "timeout": 1500, "matrix": [{"cpus": c, "gomaxprocs": g} for (c, g) in
                                                         ((16, None), (3, None), (5, None), (16, 3), (6, None), (7, None), (16, 5), (1, None),
                                                          (16, None), (12, None), (16, 6), (2, None), (16, 7), (16, None), (9, None), (16, 12))]},
        "thorough": {"shards": 16, "timeout": 7200, "matrix": [{"cpus": c, "gomaxprocs": g} for (c, g) in
                                                            ((16, None), (3, None), (5, None), (16, 3), (6, None), (7, None), (16, 5), (1, None),
                                                             (16, None), (12, None), (16, 6), (2, None), (16, 7), (16, None), (9, None), (16, 12))]},
        "rule": "polynomial kind x evaluation point class {0,1,2,127,128,254,255,256,257,2^64-1,2^64,2^128,r-3..r-1,0..600,"
                "uniform} x 3..6 claimed results {correct,+1,-1,0,-correct,neighbouring evaluations,2*correct,the point itself,"
                "uniform}; points 254,255,256,257,0,r-1 are forced into every shard. Non-trivial = point outside the domain or "
                "in 254..257 or at least one wrong result tested; distinct by the full case." + NOISE_NOTE
                + " Round-4 additions: evaluation points z = i + c/A'(i), c in {1,-1,2} (the i-th barycentric denominator is c), forced polynomials whose upper / lower half has non-zero evaluations summing to zero, and piecewise-constant polynomials.",
        "oracle": "p(point) by reference Lagrange evaluation in math/big (inside the domain asserted to be the evaluation "
                  "itself); CheckIPAProof must return true iff result == p(point); the reference verifier must accept the proof",
        "assumptions": COMMON_ASSUMPTIONS,
    },
    "C05": {
        "test": "TestC05", "variant": "elem",
        "quick": {"shards": 16, "timeout": 1500, "matrix": [{"cpus": c} for c in (16, 16, 3, 16, 5, 16, 7, 16, 1, 16, 6, 16, 2, 16, 12, 16)]},
        "thorough": {"shards": 16, "timeout": 7200, "matrix": [{"cpus": c} for c in (16, 16, 3, 16, 5, 16, 7, 16, 1, 16, 6, 16, 2, 16, 12, 16)]},
        "rule": "(1) enumeration: for chosen (basis position i, window k) every digit v in 1..2^w-1 (w=16 for i<5, else 8) x "
                "carry-in mode {none, 2^w-1 in window k-1, 2^w-1 in ALL windows below k} as the single-coefficient vector v*2^(wk) (+ the carry pattern) of length i+1, scalar < r; both tiers "
                "enumerate all 5*16 + 251*32 (position, window) units (exhaustive sub-domain, ~14.6 M checks). Non-trivial (counted, "
                "distinct by construction) = digit >= half range or a carry arrives. (2) rapid vectors: length "
                "{0..8,16,17,64,127..129,200,255,256,uniform} x {sparse, dense, dense with recipe scalars}; scalar recipes "
                "{0,1,small,r-1..r-4,2^k,2^k-1,limb patterns,8/16-bit window recipes with carry chains,uniform}; non-trivial = "
                "length != 256 or a recipe coefficient; distinct by the full case." + NOISE_NOTE
                + ' Round-4 addition: every scalar s = 2*d*2^(w*top) - r in (0, r) at positions 0..6, 100, 255 (3710 values per 16-bit position): after recoding the running sum equals the table entry added last, so the final addition is a doubling. Vector mode allsame: every coefficient equal.',
        "oracle": "reference sum v_i*G_i over the reference CRS (incremental walk re-derived every 1009th value by a direct "
                  "math/big scalar multiplication), compared as group element and as compressed bytes; metamorphic laws "
                  "Commit(a+b)=Commit(a)+Commit(b), Commit(k*a)=k*Commit(a), coefficient update = +delta*G_i, agreement with "
                  "ipa.MultiScalar over the published SRS; SRS == specification CRS",
        "assumptions": COMMON_ASSUMPTIONS,
    },
    "C06": {
        "test": "TestC06", "variant": "elem",
        "quick": {"shards": 16, "timeout": 1500},
        "thorough": {"shards": 16, "timeout": 7200,
                     "fuzz": [{"target": "FuzzC06Compressed", "seconds": 150}, {"target": "FuzzC06Uncompressed", "seconds": 150}]},
        "rule": "byte strings for SetBytes, SetBytesUncompressed(untrusted) and common.ReadPoint (whole / chunked / data+EOF "
                "readers): x half from {valid encoding of k*G or CRS point, its negation, x+p alias, on-curve x outside the "
                "subgroup, off-curve x, constants 0,1,2,p-1,p,p+1,2p,2^255,2^256-1,r,(p+-1)/2, uniform, valid with one bit "
                "flipped}; for the uncompressed form the y half from {larger root, smaller root, y+p, y+1, 0, uniform, x}; "
                "lengths 0..80; plus a deterministic sweep of all constant pairs. Non-trivial = accepted input, or rejected "
                "input failing exactly one clause of the predicate; distinct by (form, bytes)." + NOISE_NOTE + CONC_NOTE
                + ' Round-4 additions: abscissas whose two ordinates are the nearest ones to p/2 (they share their upper limbs), forced in every shard and drawn; a second part decodes the 16 / 17 group elements of a serialized IPA proof / multiproof through ONE Read call, with 0, 1, 2, 3, 4 or 16 of them replaced by one defect class (same or different values): accepted exactly when every encoding is individually acceptable, decoded elements are in the subgroup and re-encode to the input.',
        "oracle": "reference acceptance predicate (length, canonical coordinates, on curve via math/big ModSqrt, 1-a*x^2 a "
                  "non-zero square via Jacobi, canonical y) evaluated clause by clause; on accept: exact affine equality with "
                  "the reference decode, r*P in the identity class by reference arithmetic, re-encoding returns the input; no "
                  "panic",
        "assumptions": COMMON_ASSUMPTIONS,
    },
    "C07": {
        "test": "TestC07", "variant": "elem",
        "quick": {"shards": 16, "timeout": 1500, "matrix": [{"cpus": c, "gomaxprocs": g} for (c, g) in
                             ((16, None), (16, 1), (3, None), (16, None), (16, 3), (5, None), (16, None), (16, 2),
                              (1, None), (16, None), (16, 5), (7, None), (16, None), (2, None), (16, 7), (16, None))]},
        "thorough": {"shards": 16, "timeout": 7200, "matrix": [{"cpus": c, "gomaxprocs": g} for (c, g) in
                             ((16, None), (16, 1), (3, None), (16, None), (16, 3), (5, None), (16, None), (16, 2),
                              (1, None), (16, None), (16, 5), (7, None), (16, None), (2, None), (16, 7), (16, None))]},
        "rule": "histories of 3..30 API calls growing a pool of elements from the generator and identity: k*G, CRS points, "
                "Add/Sub/Double/Neg, ScalarMul with recipe and GLV-edge scalars, MultiExp over pool elements, Commit of sparse "
                "vectors (table path), decode of Bytes(), trusted uncompressed round trip, Normalize / BatchNormalize in place, "
                "projective rescaling and sign flip through the hook, adding the decoded 2-torsion point, collision makers "
                "(P+Q-Q, (s+t)P vs sP+tP, -P vs (r-1)P, P-P, Set). All pairs of the final pool are compared. Non-trivial = a "
                "history whose pool contains both a pair that is equal with different (X,Y,Z) triples and an unequal pair; "
                "distinct by the history." + NOISE_NOTE + CONC_NOTE
                + ' Round-4 addition: elements produced by a caller-built table MSM (NewPrecompMSM over a basis with repeated and opposite points; the running sum passes through the identity before another term arrives).',
        "oracle": "reference arithmetic on the raw coordinates (hook): P.Equal(Q) == Q.Equal(P) == reference class equality == "
                  "(P.Bytes() == Q.Bytes()); Bytes() == reference compression; decode(Bytes()) succeeds and equals P; reflexive; "
                  "never true against the zero value; every operation result is a valid curve point",
        "assumptions": COMMON_ASSUMPTIONS,
    },
    "C11": {
        "test": "TestC11", "variant": "elem",
        "quick": {"shards": 16, "timeout": 1500, "matrix": [{"cpus": c, "gomaxprocs": g} for (c, g) in
                             ((16, None), (16, 1), (3, None), (16, None), (16, 3), (5, None), (16, None), (16, 2),
                              (1, None), (16, None), (16, 5), (7, None), (16, None), (2, None), (16, 7), (16, None))]},
        "thorough": {"shards": 16, "timeout": 7200, "matrix": [{"cpus": c, "gomaxprocs": g} for (c, g) in
                             ((16, None), (16, 1), (3, None), (16, None), (16, 3), (5, None), (16, None), (16, 2),
                              (1, None), (16, None), (16, 5), (7, None), (16, None), (2, None), (16, 7), (16, None))]},
        "rule": "pool histories as in C07 (3..24 calls) plus a batch of length {0,1,2,3,15,16,17,100,255,256,257,300,uniform<=300} "
                "of pool pointers (random with repeats / sequential / triplicated). Non-trivial = the pool contains an element "
                "with Z != 1 (results of MSM, table, GLV, rescaling paths); distinct by the case." + NOISE_NOTE + CONC_NOTE
                + ' Round-4 additions: constructed subgroup elements whose x/y lies just below or above a multiple of r (m = 1..3) or just below p, forced in every shard; distinct elements whose reduced values collide are a labelled class, not a failure.',
        "oracle": "reference x/y mod p read little-endian mod r from the raw coordinates; equal values iff reference-equal "
                  "elements over all pool pairs; BatchMapToScalarField equals the single call position by position, reports a "
                  "length mismatch, and leaves every input the same group element; destination scalars start dirty",
        "assumptions": COMMON_ASSUMPTIONS,
    },
    "C08": {
        "test": "TestC08", "variant": "elem",
        "quick": {"shards": 16, "timeout": 1500},
        "thorough": {"shards": 16, "timeout": 7200},
        "rule": "operation cases: op in {Add, Sub, Double, Neg, ScalarMul, AddMixed, Set, SetIdentity, algebraic laws}; operands "
                "from {identity (0,1), its other representative (0,-1), +-G, CRS points, small and uniform multiples of G, sums} x "
                "representation {Z=1, rescaled, sign-flipped, both}; scalars from recipes (0,1,small,r-1..r-4,2^k,2^k-1,limb "
                "patterns, window recipes, small Montgomery representation, uniform) and a list of GLV edge values (lambda, "
                "lambda+-1, r-lambda, j*lambda, 2^63..2^252 +-, r/2, sqrt r); aliasing pattern {fresh receiver, receiver=p1, "
                "receiver=p2, p1=p2, all three}; deterministic sweep of every edge scalar on identity/(0,-1)/G/CRS in all "
                "representations. Non-trivial = aliased receiver, non-plain or identity-class operand, or an edge scalar." + NOISE_NOTE + CONC_NOTE
                + ' Round-4 additions: operands standing in a relation (Q = P, -P, 2P, 3P, P+G held in a separate object and in any representation, so P + Q meets the doubling / cancelling cases of the addition law through the (x,-y) form as well) and related scalars (t = -s, t = s, t = 1 - s).',
        "oracle": "differential against the reference group law (fast backend on all cases, math/big backend on a 1/16 sample), "
                  "compared up to Banderwagon equivalence on raw coordinates; results must be valid curve points; operands that "
                  "are not the receiver remain the same group element; laws (s+t)P=sP+tP, s(P+Q)=sP+sQ, 0*P=id, (r-1)P+P=id, P-P=id, "
                  "P+id=P, P+sP=(s+1)P",
        "assumptions": COMMON_ASSUMPTIONS,
    },
    "C09": {
        "test": "TestC09", "variant": "msm",
        "quick": {"shards": 16, "timeout": 2400,
                  "matrix": [{"cpus": c} for c in (16, 16, 1, 3, 16, 2, 5, 16, 1, 7, 16, 4, 16, 3, 16, 1)]},
        "thorough": {"shards": 32, "timeout": 14400, "matrix": [{"cpus": c} for c in range(16, 0, -1)],
                     "fuzz": [{"target": "FuzzC09Digits", "seconds": 150}]},
        "rule": "public path (banderwagon.Element.MultiExp, bandersnatch.MultiExp, ipa.MultiScalar): n in {0..8, every window "
                "threshold 49,129,321,769,1793,4097,9217,20481 -2..+1, 1..300, 1..5000; thorough adds 45057, 98305, 212993, "
                "458753}; NbTasks in {0,1,2,3,5,16,32,52,63,64,65,128,129,256,1024, uniform 0..1100}; both ScalarsMont values; "
                "scalar vectors {uniform, zero, all small, 15% / 5% small (first-chunk split on/off), per-window digit recipes "
                "for widths 4..16, limb patterns, one-hot}; points drawn with repetition from a pool of 8192 points with "
                "known discrete logs, duplicates, identity points, non-normalised representations; length mismatch; processes "
                "pinned to 1..16 CPUs. Internal path (hook): every c in {4..16} x splitFirstChunk x n in {1,2,3,7,64,143} "
                "deterministically plus rapid cases, c=20 and c=21 once each (c=22 and more in thorough), scalars through "
                "partitionScalars. Non-trivial = n >= 2 with a split, the first-chunk split path, a window width other than "
                "6, or a digit/limb recipe; distinct by the case." + NOISE_NOTE
                + " Round-4 additions: point lists whose Z coordinates multiply to exactly 1 without being 1 ('tieZ'), the receiver being one of the input elements, all (20|21, split|no split) huge-window combinations in quick and 22 in thorough; thorough also fuzzes explicit scalars through the digit partitioning (FuzzC09Digits). Neighbouring terms that hold the same point (or opposite points) with equal or opposite scalars, so that terms cancel or double inside a bucket; every term with the same scalar.",
        "oracle": "sum s_i*P_i = (sum s_i*a_i mod r)*G from the known discrete logs, one reference scalar multiplication, compared "
                  "by reference equality on raw coordinates; length mismatch must return an error; "
                  "termination: a watchdog 3 orders of magnitude above the normal cost; a call that does not return while every "
                  "go-ipa goroutine is parked, or while an independent computation in the same process completes at once, is a violation",
        "assumptions": COMMON_ASSUMPTIONS + ["the harness recomputes the cost model only to label cases with the (c, nbSplits) "
                                             "they exercise", "NumCPU > 16 is emulated by NbTasks up to 1100"],
    },
    "C14": {
        "test": "TestC14", "variant": "elem",
        "quick": {"shards": 16, "timeout": 1200},
        "thorough": {"shards": 16, "timeout": 7200},
        "rule": "histories of 0..64 operations over {DomainSep, AppendMessage, AppendScalar, AppendPoint, ChallengeScalar} with "
                "labels/messages from {empty, short text, 31..4096 random bytes incl. 1023/1024/1025, rarely 8-40 kB, zero bytes}, a forced "
                "history whose first digest lies in [r, 2^253), scalars by "
                "recipe, points from every source and representation (optionally appended through one reused variable), four "
                "protocol labels; each history is run twice and once more with one change (label / message / swap of two "
                "self-delimiting operations / protocol label / dropped operation). Non-trivial = >= 2 challenges, or > 1024 "
                "pending bytes, or an empty message, or a non-normalised point; distinct by the history." + NOISE_NOTE + CONC_NOTE
                + " Round-4 addition: after every call the caller's label and message buffers are overwritten (what is absorbed must be the bytes at call time, not a retained slice).",
        "oracle": "model-based: the reference transcript (one byte buffer + crypto/sha256, little-endian reduction mod r, "
                  "re-absorption under the challenge label, anchored to the five published vectors) executes the same history; "
                  "every challenge must be equal; identical histories give identical challenges; a change that alters the "
                  "reference's final challenge must alter go-ipa's",
        "assumptions": COMMON_ASSUMPTIONS,
    },
    "C20": {
        "test": "TestC20", "variant": "elem",
        "quick": {"shards": 16, "timeout": 1500,
                  # GOMAXPROCS differs from the CPU count in a third of the processes (above it and below it): the default
                  # worker limit is the CPU count, whatever GOMAXPROCS says
                  "matrix": [{"cpus": c, "gomaxprocs": g} for (c, g) in ((16, None), (1, None), (2, 7), (3, None), (5, 2), (16, 24), (7, None), (1, 4),
                                                                         (16, None), (2, None), (3, 17), (16, 5), (5, None), (11, None), (13, 32), (16, None))]},
        "thorough": {"shards": 32, "timeout": 10800, "matrix": [{"cpus": c, "gomaxprocs": g} for c in range(1, 17) for g in (None, c + 5)]},
        "rule": "exhaustive grid (n, m): the full 0..2048 x 1..300 in both tiers; plus the default worker limit for every n under NumCPU in 1..16 "
                "(taskset), with GOMAXPROCS equal to, above and below the CPU count; plus rapid cases with per-invocation delays (Gosched bursts / short sleeps) inside the work "
                "function. Non-trivial (counted, distinct by construction for the grid) = n > m and n mod m != 0."
                + ' Round-4 additions: iteration counts far beyond the grid (4096 ... 2^62, +-3) with worker limits 0, 1, 3, 16, 17, 257, 4099, forced and drawn.',
        "oracle": "validity predicate over the recorded multiset of (start,end): sorted ranges contiguous and disjoint, union "
                  "exactly [0,n), none empty/inverted/out of bounds, count <= min(n,m); finished == started at the moment "
                  "Execute returns and no invocation starts afterwards; watchdog",
        "assumptions": COMMON_ASSUMPTIONS + ["'returns only after every invocation has returned' is schedule-dependent: delays "
                                             "make an early return observable with high probability, not certainty"],
    },
    "C18": {
        "test": "TestC18", "variant": "ipa",
        "quick": {"shards": 16, "timeout": 1800,
                  "matrix": [{"cpus": c} for c in (16, 3, 5, 7, 16, 6, 1, 2, 16, 12, 9, 11, 16, 13, 10, 3)]},
        "thorough": {"shards": 16, "timeout": 10800, "matrix": [{"cpus": c} for c in (16, 15, 14, 13, 12, 11, 10, 9, 7, 6, 5, 3, 2, 1, 16, 16)]},
        "rule": "processes pinned to 1..16 CPUs (the configuration and its weight tables are BUILT inside each process under that "
                "CPU count / GOMAXPROCS); all 512 + 510 precomputed table entries (hook); DivideOnDomain at ALL 256 indices for, per shard, one dense "
                "polynomial, one unit vector and (split over shards) X^255 in evaluation form (thorough: +6 more per shard, the "
                "all-(r-1) polynomial, a sparse one); ComputeBarycentricCoefficients at z in {256, 257, 2^64, r-1, uniform} for each; "
                "plus rapid cases polynomial kind x (index | point class incl. limb-aligned and small-Montgomery points). "
                "Non-trivial = non-constant polynomial; grid cases counted, distinct by construction." + NOISE_NOTE,
        "oracle": "coefficient-form reference in math/big: Newton interpolation, Horner evaluation, synthetic division of "
                  "p(X)-p(k) by X-k evaluated back over 0..255 (including position k); tables == defining products A'(x_i), "
                  "1/A'(x_i), 1/k, -1/k (read after use, so lazily built tables are complete); the first call on freshly "
                  "constructed weights objects (index k > 0 / out-of-domain point); a second call at the same point after the "
                  "caller overwrote the first result",
        "assumptions": COMMON_ASSUMPTIONS,
    },
    "C17": {
        "test": "TestC17", "variant": "elem",
        "quick": {"shards": 16, "timeout": 1200},
        "thorough": {"shards": 16, "timeout": 7200, "fuzz": [{"target": "FuzzC17Sqrt", "seconds": 150}]},
        "rule": "v = g^e * u with g the published primitive 2^32-th root of unity and u of odd order, e chosen so that the "
                "2-adic component of v has a structured discrete log: for every block position 0..3 and every byte value 0..255 "
                "with the other blocks 0 / 0xFF / seed-dependent (enumerated completely in both tiers, for SqrtPrecomp and for "
                "GetPointFromX with both sign choices); all 2^k-th roots of unity; 0, 1, p-1; rapid cases: dyadic with per-block "
                "classes, constants (small, p-k, 2^k, 0..100000), uniform, explicit squares and non-squares, x coordinates of "
                "valid subgroup points, abscissas whose two ordinates lie next to p/2 (share their upper limbs). Non-trivial = a non-trivial 2-adic component (dlog != 0) or a root of unity." + CONC_NOTE
                + ' Round-4 additions: values whose INTERNAL (Montgomery) limbs are a small word or a limb-aligned pattern (value = pattern * 2^-256 mod p), forced and drawn; thorough also fuzzes 32-byte values (FuzzC17Sqrt).',
        "oracle": "math/big: residue iff Jacobi = 1 (or v = 0); returned root squared == v; nil iff non-residue; input of the square root unchanged; "
                  "the first square roots of every process are taken by 16 goroutines at once; GetPointFromX (fresh or reused "
                  "argument variable) nil iff (a x^2-1)/(d x^2-1) is a non-residue (ModSqrt), otherwise exactly (x, larger|smaller "
                  "root) and on the curve",
        "assumptions": COMMON_ASSUMPTIONS,
    },
    "C15": {
        "test": "TestC15", "variant": "fr",
        "quick": {"shards": 16, "timeout": 1800, "matrix": [{"variant": "fr"}, {"variant": "fr_noadx"}]},
        "thorough": {"shards": 32, "timeout": 14400, "matrix": [{"variant": "fr"}, {"variant": "fr_noadx"}],
                     "fuzz": [{"target": "FuzzC15Ops", "seconds": 150}]},
        "rule": "boundary set: all 4-limb combinations of per-limb values {0,1,2^63,2^64-1,q_i-1,q_i,q_i+1} below r plus values "
                "within +-2 of 0, r/2, r, R mod r, R^2 mod r, R^-1 mod r (raw limb patterns; the count is in "
                "coverage.boundary_elements). FULL cross product of ordered pairs for Add, Sub, Mul, their portable generic "
                "versions, Butterfly (asm and generic), Cmp, Equal, conversions, with rotating aliasing patterns; Div and Exp on "
                "a seed-selected 1/29 slice of pairs (all pairs in thorough); every boundary element for Neg, Double, Square, "
                "Inverse, MulBy3/5/13, SetBigInt (incl. +8r, -r), Mont round trip, generic neg/double, Sqrt/Legendre, "
                "mulByConstant; the SAME limb patterns in value space (elements whose regular value is the pattern): full cross "
                "product for Cmp/Equal/ordering/conversions/Butterfly, all unary operations, a 1/11 slice of mixed-space pairs "
                "for the arithmetic; 6 constructed operand pairs per boundary pattern whose Mul/Add/Sub RESULT is that pattern; Exp with exponents wider than "
                "the field (multiples of r-1, y + k(r-1), y<<130); BatchInvert of length 0..5000 with zeros at chosen positions; plus rapid cases (boundary / sparse-bit / small-value "
                "/ uniform operands, all aliasing patterns). Run in two build configurations (default with ADX detection, "
                "-tags noadx), each also calling the portable generic functions through the hook. Non-trivial = (configuration, "
                "boundary operand pair / element) (counted, distinct by construction)." + CONC_NOTE
                + ' Round-4 additions: BatchInvert lengths 1023..1025, 2049, 4097; thorough also fuzzes (operation, aliasing, raw operands) with coverage guidance (FuzzC15Ops). In a third of the drawn binary cases the second operand is derived from the first in raw limbs (same, negative, +-d*2^(64k), double, x+y = r+d).',
        "oracle": "math/big on the raw limbs: value = limbs*2^-256 mod r, operation on integers mod r, expected limbs = value*2^256 "
                  "mod r; results must be bit-identical to that fully reduced representation; Sqrt nil iff Jacobi = -1 and "
                  "root^2 = x; inverse of 0 is 0; operands unchanged",
        "assumptions": COMMON_ASSUMPTIONS + ["inputs are reduced (< r), as every constructor of the package guarantees"],
    },
    "C19": {
        "test": "TestC19", "variant": "elem",
        "quick": {"shards": 16, "timeout": 1500, "matrix": [{"cpus": c, "gomaxprocs": g} for (c, g) in
                                                         ((16, None), (1, None), (3, None), (16, 1), (2, None), (5, None), (16, 3), (7, None),
                                                          (16, None), (16, 2), (3, 16), (16, 5), (1, 4), (16, None), (6, None), (16, 7))]},
        "thorough": {"shards": 16, "timeout": 7200, "matrix": [{"cpus": c, "gomaxprocs": g} for (c, g) in
                                                            ((16, None), (1, None), (3, None), (16, 1), (2, None), (5, None), (16, 3), (7, None),
                                                             (16, None), (16, 2), (3, 16), (16, 5), (1, 4), (16, None), (6, None), (16, 7))]},
        "rule": "lists of length {0,1,2,3,NumCPU-1..NumCPU+1,2NumCPU+1,255,256,257,300, uniform<=60} of pointers to private copies "
                "of pool elements (pool grown by an API history as in C07: mixed normalised / projective / sign-flipped, identity "
                "included) with aliasing pattern {all distinct, all the same pointer, blocks of 3, two interleaved, random "
                "repeats}; for the error path one un-normalisable element (zero value or Z=0) at a drawn position, and "
                "deterministically at EVERY position of lists of length 1,2,3,4,5,8,17. Non-trivial = list with a repeated "
                "pointer and a non-normalised element; distinct by the case." + NOISE_NOTE + CONC_NOTE
                + ' Round-4 additions: list lengths 63..65, 1023..1025, 4097; representations chosen so that the product of the Z (or Y) coordinates over the list is exactly 1 or -1 without any of them being 1.',
        "oracle": "ElementsToBytes[i] == e_i.Bytes(); BatchToBytesUncompressed[i] == e_i.BytesUncompressedTrusted(); "
                  "BatchMapToScalarField[i] == single; the serialisers leave every element the same group element; BatchNormalize: "
                  "Z == 1 (hook) and reference-Equal to before; on the error path an error and every element bit-for-bit unchanged; "
                  "trusted uncompressed decode is reference-Equal to the original (demands exactly what C19 states)",
        "assumptions": COMMON_ASSUMPTIONS,
    },
    "C10": {
        "test": "TestC10", "variant": "elem",
        "quick": {"shards": 16, "timeout": 1500},
        "thorough": {"shards": 16, "timeout": 7200,
                     "fuzz": [{"target": "FuzzC10MultiProofRead", "seconds": 150}, {"target": "FuzzC10IPAProofRead", "seconds": 150}]},
        "rule": "byte strings for MultiProof.Read (576) and IPAProof.Read (544): 17/16 valid encodings + canonical scalar, or uniform "
                "bytes; one field replaced by {off-curve x, non-subgroup x, x+p alias, p, p-1, 2^256-1, identity, negated valid, one "
                "flipped bit | scalar r-1, r, r+1, 2r, r+2^119, p, 2^256-1, 0}; truncation at every field boundary +-1 or anywhere; "
                "1..576 trailing bytes; readers respecting the io.Reader contract: whole buffer, 1 byte at a time, chunk sizes "
                "{1,2,7,31,32,33,64,100,575,576}, final data returned together with io.EOF, error injected at offset k; writers "
                "failing at the j-th Write call. Deterministic sweeps: every field x every replacement class, every write-fault "
                "position, an injected read error at every offset 0..577, trailing bytes through every reader kind. "
                "Non-trivial = rejected for exactly one reason, or accepted through a non-trivial reader, or a write-fault case." + NOISE_NOTE + CONC_NOTE
                + ' Round-4 additions: the same invalid class in TWO fields at once (pairs inside L, inside R, across, and with D; an even number of wrong-subgroup points), final scalars whose limbs are one below / equal to / one above the limbs of r (all 81 combinations deterministically, 5^3*3 drawn). A third part writes proof OBJECTS whose points are in arbitrary (rescaled, sign-flipped, identity) representations, with L and R optionally being the two halves of one backing array: Write must emit the canonical encodings and Read(Write(p)) must equal p.',
        "oracle": "reference parser: exactly 576 (544 consumed) bytes, every point a valid canonical subgroup encoding (reference "
                  "decoder), scalar < r, the stream delivers all bytes then EOF; Read succeeds iff the reference accepts; on "
                  "success decoded fields equal the reference decode, Write reproduces the bytes, Read(Write(p)).Equal(p); a "
                  "failing writer (error with 0 bytes or with the full byte count) makes Write return an error and does not affect "
                  "a later Write; IPAProof.Read consumes exactly 544 bytes of the stream; receivers that already hold another "
                  "proof; no panic",
        "assumptions": COMMON_ASSUMPTIONS + ["readers and writers respect the io.Reader / io.Writer contracts"],
    },
    "C13": {
        "test": "TestC13", "variant": "ipa",
        "quick": {"shards": 16, "timeout": 2400, "matrix": [{"cpus": c} for c in (16, 16, 3, 16, 5, 16, 1, 16, 7, 16, 2, 16)]},
        "thorough": {"shards": 16, "timeout": 14400, "matrix": [{"cpus": c} for c in (16, 16, 3, 16, 5, 16, 1, 16, 7, 16, 2, 16)]},
        "rule": "histories of 5..40 API calls drawn from 24 kinds (incl. bursts of unrelated calls with failing ones); slice arguments are "
                "passed with spare capacity guarded by canaries (Commit of short/long vectors, CreateMultiProof incl. openings "
                "that share an evaluation index and reused commitment pointers, CheckMultiProof honest and perturbed incl. one "
                "scalar object used for two claimed values, CreateIPAProof / CheckIPAProof, MultiScalar over a sub-slice of the "
                "shared SRS, MultiExp in Montgomery and regular scalar form with small scalars, element and batch codecs, "
                "BatchNormalize with repeated pointers, fr decoders on canonical and non-canonical buffers, BatchInvert, "
                "barycentric helpers, InnerProd, transcript operations on caller and config objects, group operations whose "
                "operands are config elements, proof Write/Read/Equal), every argument passed by pointer or slice snapshotted; "
                "a fixed proving+verifying probe call replayed at 1..3 drawn positions; plus one deterministic history with every "
                "kind of call per shard. Non-trivial = history containing an aliasing shape (>= 2 openings sharing an index, or a "
                "reused argument object); distinct by the history."
                + ' Round-4 additions: decoding other bytes (complete, or truncated so that Read fails half way) into a by-value COPY of a proof object, which shares its L/R arrays with the original; a forced history proving about 1030 openings through distinct non-normalised commitment objects.',
        "oracle": "history invariant: after every call the SHA-256 fingerprint of SRS, Q, weight tables (hook), exported constants "
                  "(Generator, Identity, bandersnatch.Identity, IdentityExt, CurveParams), label bytes up to capacity (hook), a reflective walk of the WHOLE "
                  "configuration object (unexported and future fields included) and 4096 sampled MSM table entries is unchanged; every caller-supplied input is bit-for-bit unchanged (commitments "
                  "given to CreateMultiProof must stay the same group element); full 350 MB MSM table fingerprint after every "
                  "history; the probe (3-opening and single-opening multiproofs, an in-domain IPA proof, a short commitment) returns identical bytes "
                  "every time; nothing was written behind the end of a caller's slice",
        "assumptions": COMMON_ASSUMPTIONS,
    },
    "C12": {
        "test": "TestC12", "variant": "race",
        "quick": {"shards": 4, "timeout": 3000, "matrix": [{"gomaxprocs": g} for g in (16, 4, 2, 1)]},
        "thorough": {"shards": 8, "timeout": 14400, "matrix": [{"gomaxprocs": g} for g in (16, 4, 2, 1, 8, 3, 16, 2)]},
        "rule": "plans of 2..12 goroutines, each a drawn sequence of 1..6 calls from {Commit, CreateMultiProof, prove+CheckMultiProof "
                "(up to 2*NumCPU+3 openings, shared indices), CreateIPAProof+CheckIPAProof at in-domain and out-of-domain points, "
                "ipa.MultiScalar over the shared SRS, MultiExp with several NbTasks values, element encode/decode, batch helpers, fr "
                "decoders/String/Exp (pooled big integers; canonical decoder incl. its rejecting path), private transcripts, "
                "map-to-field, long runs of Add/Sub/Double/Neg/ScalarMul on private elements, batch helpers with repeated projective "
                "pointers and a failing batch call, MSMs of more than 256 points with fresh sizes, first use of a freshly constructed "
                "weights object by all goroutines at once} on disjoint arguments and one shared IPAConfig; plus a fixed plan with every kind of call and symmetric plans (8 goroutines x the "
                "same kind of call). Each plan "
                "is run sequentially under the default GOMAXPROCS, then concurrently from a start barrier, in a -race binary, one process per GOMAXPROCS value "
                "in {1,2,4,16}. Non-trivial = plan with >= 2 goroutines that each execute a proving or MSM call; distinct by "
                "(plan, GOMAXPROCS).",
        "oracle": "differential: the bytes returned by every call when run concurrently (under this process's GOMAXPROCS) == when run alone "
                  "(default GOMAXPROCS); the race detector (any "
                  "report written while a plan runs fails it, the report is attached); watchdog with goroutine-dump classification",
        "assumptions": COMMON_ASSUMPTIONS + ["the harness does not own the Go scheduler: data races on executed paths are found "
                                             "reliably by the race detector, a logic error needing one rare interleaving may be missed"],
        "level_note": "weakest claim of the set: schedules are sampled (GOMAXPROCS, repetition, -race), not enumerated; trusted base as for the other checks plus the Go race detector",
    },
    "C16": {
        "test": "TestC16", "variant": "elem",
        "quick": {"shards": 16, "timeout": 900},
        "thorough": {"shards": 16, "timeout": 3600, "fuzz": [{"target": "FuzzC16Decode", "seconds": 150}]},
        "rule": "byte strings of length 0..64 built by class (boundary values 0,1,r-1,r,r+1,2r,2^253,2^256-1,p... +-3 "
                "in both endiannesses with zero padding/truncation, limb patterns relative to the modulus limbs {q_i-1,q_i,q_i+1,0,2^64-1,"
                "random} (all 5^4 deterministic combinations swept), uniform, sparse, encodings of uniform scalars) plus a "
                "deterministic sweep of every boundary value +-2; each string is given to SetBytes, SetBytesLE, "
                "SetBytesLECanonical and ReadScalar twice on the same buffer. Non-trivial = length != 32 or integer value "
                "(either endianness) >= r; distinct by the byte string." + CONC_NOTE
                + ' Round-4 additions: values k*r +- d for k = 0..9 (and multiples far beyond 2^256 for longer strings) with d from 0 to about 2^190; the input slice is a window of a larger caller-owned array whose bytes behind the slice are checked after every call.',
        "oracle": "math/big: int(bytes) mod r on raw Montgomery limbs; canonical decoder accepts iff int < r; input buffer "
                  "compared before/after; second decode equals first; encoders compared with big-endian/little-endian "
                  "FillBytes",
        "assumptions": COMMON_ASSUMPTIONS,
    },
}

HOOK_COMMITS = ["1c7f22f"]
NOT_CLAIMED = {}
NOTES = ("Driver: ./check <ID> quick|thorough|--replay <file>; exit 0 held / 1 violation / 2 inconclusive. "
         "Fix commits in /repo: 18e7710 (C16/C13), 2b5696f (C06), 531f665 (C10), 1b87bca (C08); see known_findings.json and DESIGN.md section 6. "
         "Every check except C12 also runs one process built for GOARCH=386 (runs on this host; DESIGN.md 10.7). Sensitivity: 200 independently "
         "seeded changes (seeded/, seeded/RESULTS.md) are all detected by the quick tier of the check of their own property; 36 behaviour-preserving "
         "changes (benign/, benign/RESULTS.md) raise no alarm. Developer options: VERIF_REPO=<scratch tree> (never writes evidence/), "
         "VERIF_COVER=1 + covreport.py (statement coverage of go-ipa reached by the generated cases).")

# Every check except C12 (the race detector needs a 64-bit platform) runs ONE additional process built for GOARCH=386: it takes
# over the deterministic share of one shard (rotating with the seed) and a quarter / a tenth of a shard's drawn cases.
for _pid, _p in PROPS.items():
    if _pid == "C12":
        continue
    _v = _p["variant"] + "386"
    _p["quick"]["extra"] = [{"variant": _v, "env": {"VERIF_SCALE": 0.25}}]
    _p["thorough"]["extra"] = [{"variant": _v, "env": {"VERIF_SCALE": 0.1}}]
