"""Per-property configuration of the driver: binary variant, process matrix, budgets, evidence text."""

VARIANTS = {
    "elem": {"tags": "verif,verif_elem"},
    "ipa": {"tags": "verif,verif_elem,verif_ipa"},
    "msm": {"tags": "verif,verif_elem,verif_msm"},
    "fr": {"tags": "verif,verif_fr"},
    "fr_noadx": {"tags": "verif,verif_fr,noadx"},
    "race": {"tags": "verif,verif_elem", "race": True},
}

COMMON_ASSUMPTIONS = [
    "the independent reference (harness/ref: math/big + gnark-crypto base field, validated at start-up against the "
    "cross-implementation vectors) is correct",
    "gnark-crypto v0.13.0 base-field arithmetic (third-party, outside /repo) is correct",
    "exploration: the property held on every generated case; absence of violations elsewhere is not established",
]

PROPS = {
    "C16": {
        "test": "TestC16", "variant": "elem",
        "quick": {"shards": 16, "timeout": 900},
        "thorough": {"shards": 16, "timeout": 3600},
        "rule": "byte strings of length 0..64 built by class (boundary values 0,1,r-1,r,r+1,2r,2^253,2^256-1,p... +-3 "
                "in both endiannesses with zero padding/truncation, uniform, sparse, encodings of uniform scalars) plus a "
                "deterministic sweep of every boundary value +-2; each string is given to SetBytes, SetBytesLE, "
                "SetBytesLECanonical and ReadScalar twice on the same buffer. Non-trivial = length != 32 or integer value "
                "(either endianness) >= r; distinct by the byte string.",
        "oracle": "math/big: int(bytes) mod r on raw Montgomery limbs; canonical decoder accepts iff int < r; input buffer "
                  "compared before/after; second decode equals first; encoders compared with big-endian/little-endian "
                  "FillBytes",
        "assumptions": COMMON_ASSUMPTIONS,
    },
}

HOOK_COMMITS = ["1c7f22f"]
NOT_CLAIMED = {}
NOTES = ("Driver: ./check <ID> quick|thorough|--replay <file>; exit 0 held / 1 violation / 2 inconclusive. "
         "Fix commits in /repo: 18e7710 (C16/C13), 2b5696f (C06), 531f665 (C10), 1b87bca (C08); see known_findings.json and DESIGN.md section 6.")
